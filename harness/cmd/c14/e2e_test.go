//go:build go1.25

package c14

// End-to-end part of the C14 harness: N goroutines push/delete referrers of
// 1-3 subjects through ONE remote.Repository against the tag-schema fake
// registry.  Every HTTP exchange parks in a gate; under testing/synctest the
// harness waits for quiescence and releases one parked exchange chosen by the
// PRNG (optionally failing an index GET / PUT / DELETE).  After the last round
// the oracle compares Referrers()/Predecessors() with the generator's ground
// truth, with a Referrers-API registry fed the live manifests, scans the
// registry store for dangling indexes and checks the capability samples.

import (
	"bytes"
	"context"
	"encoding/json"
	"errors"
	"fmt"
	"net/http"
	"sort"
	"strings"
	"sync"
	"testing"
	"testing/synctest"

	"github.com/opencontainers/go-digest"
	specs "github.com/opencontainers/image-spec/specs-go"
	ocispec "github.com/opencontainers/image-spec/specs-go/v1"
	"oras.land/oras-go/v2/registry/remote"
	"verifharness/common"
	"verifharness/fakereg14"
)

const repoName = "r"
const mtArtifact = "application/vnd.oci.artifact.manifest.v1+json"

var emptyJSONDigest = digest.FromString("{}")

type Man struct {
	Subject      int               `json:"subject"`
	Kind         string            `json:"kind"` // image | artifact | index
	ArtifactType string            `json:"artifact_type,omitempty"`
	ConfigMT     string            `json:"config_mt,omitempty"`
	Ann          map[string]string `json:"ann,omitempty"`
	Salt         int               `json:"salt"`
	// SubjVar varies the subject descriptor written into the manifest (same digest):
	// 0 accurate, 1 size omitted (0), 2 other media type, 3 both
	SubjVar int `json:"subj_var,omitempty"`
}

type Op struct {
	ID   int    `json:"id"`
	Kind string `json:"kind"` // push | delete
	Man  int    `json:"man"`
}

type Dec struct {
	Op    int    `json:"op"`
	Class string `json:"class"`
	Fail  bool   `json:"fail,omitempty"`
	// Kind of the injected failure: "" = 500 before any effect, "404" = 404 before any effect,
	// "lost" = the request takes effect and the client gets 500
	Kind string `json:"kind,omitempty"`
}

type E2ECase struct {
	Seed      uint64  `json:"seed"`
	SkipGC    bool    `json:"skip_gc"`
	NSubjects int     `json:"nsubjects"`
	Mans      []Man   `json:"mans"`
	PreLive   []int   `json:"pre_live"`
	PreIndex  [][]int `json:"pre_index"`
	Rounds    [][]Op  `json:"rounds"`
	FaultPct  int     `json:"fault_pct"`
	MaxFaults int     `json:"max_faults"`
	Decisions []Dec   `json:"decisions,omitempty"`
	DistinctPre bool  `json:"distinct_pre,omitempty"`
	// FaultKinds: besides "500 before any effect" on the index exchanges also 404 on the index
	// DELETE, a lost response of the index PUT (takes effect, answered 500) and failures of the
	// operation's own manifest exchanges
	FaultKinds bool `json:"fault_kinds,omitempty"`
	// systematic exploration (replays use Decisions)
	Explore   bool  `json:"-"`
	Choices   []int `json:"-"`
	optCounts []int
}

type Event struct {
	N       int    `json:"n"`
	Round   int    `json:"round"`
	Op      int    `json:"op"`
	Class   string `json:"class"`
	Subject int    `json:"subject"`
	Fail    bool   `json:"fail,omitempty"`
	PutList []int  `json:"put_list,omitempty"`
	Cap     int32  `json:"cap"`
	// Status the registry answered with; Fail = injected or (index DELETE) answered >= 400
	Status int `json:"status,omitempty"`
	Kind   string `json:"kind,omitempty"`
	// Dropped: subjects whose referrers tag vanished with this exchange although it is not
	// theirs (the deleted index manifest was shared: content-addressed)
	Dropped []int `json:"dropped,omitempty"`
}

type OpResult struct {
	ID      int
	Round   int
	Outcome string // ok | idxdel | err
	Err     string
}

type Item struct {
	Man          int
	Digest       string
	MediaType    string
	Size         int64
	ArtifactType string
	Ann          map[string]string
}

type Listing struct {
	Err   string
	Items []Item
}

type E2EResult struct {
	Events      []Event
	Ops         map[int]OpResult
	Caps        []int32
	Decisions   []Dec
	Listings    []Listing
	Preds       []Listing
	Filtered    []Listing
	FilterType  string
	Live        []bool
	IndexTagged [][]int
	IndexArts   [][]string // artifact type of each entry of IndexTagged
	Dangling    []string
	DanglingOf  []int // per subject: index manifests once stored under its tag, still in the registry, not current
	API         []Listing
	Deadlock    bool
}

type built struct {
	desc    ocispec.Descriptor
	content []byte
}

func subjectManifest(s int) built {
	m := ocispec.Manifest{Versioned: specs.Versioned{SchemaVersion: 2}, MediaType: ocispec.MediaTypeImageManifest,
		Config: ocispec.Descriptor{MediaType: "application/vnd.oci.image.config.v1+json", Digest: emptyJSONDigest, Size: 2},
		Layers: []ocispec.Descriptor{{MediaType: "application/vnd.oci.image.layer.v1.tar", Digest: emptyJSONDigest, Size: int64(1000 + s)}}}
	c, _ := json.Marshal(m)
	return built{ocispec.Descriptor{MediaType: m.MediaType, Digest: digest.FromBytes(c), Size: int64(len(c))}, c}
}

func buildMan(m Man, subj ocispec.Descriptor) built {
	if m.SubjVar&1 != 0 {
		subj.Size = 0
	}
	if m.SubjVar&2 != 0 {
		subj.MediaType = "application/vnd.docker.distribution.manifest.v2+json"
	}
	var c []byte
	var mt string
	filler := ocispec.Descriptor{MediaType: "application/vnd.oci.empty.v1+json", Digest: emptyJSONDigest, Size: int64(2 + m.Salt)}
	switch m.Kind {
	case "artifact":
		mt = mtArtifact
		a := struct {
			MediaType    string               `json:"mediaType"`
			ArtifactType string               `json:"artifactType,omitempty"`
			Blobs        []ocispec.Descriptor `json:"blobs,omitempty"`
			Subject      *ocispec.Descriptor  `json:"subject,omitempty"`
			Annotations  map[string]string    `json:"annotations,omitempty"`
		}{mt, m.ArtifactType, []ocispec.Descriptor{filler}, &subj, m.Ann}
		c, _ = json.Marshal(a)
	case "index":
		mt = ocispec.MediaTypeImageIndex
		filler.MediaType = ocispec.MediaTypeImageManifest
		x := ocispec.Index{Versioned: specs.Versioned{SchemaVersion: 2}, MediaType: mt, ArtifactType: m.ArtifactType,
			Manifests: []ocispec.Descriptor{filler}, Subject: &subj, Annotations: m.Ann}
		c, _ = json.Marshal(x)
	default:
		mt = ocispec.MediaTypeImageManifest
		x := ocispec.Manifest{Versioned: specs.Versioned{SchemaVersion: 2}, MediaType: mt, ArtifactType: m.ArtifactType,
			Config: ocispec.Descriptor{MediaType: m.ConfigMT, Digest: emptyJSONDigest, Size: 2},
			Layers: []ocispec.Descriptor{filler}, Subject: &subj, Annotations: m.Ann}
		c, _ = json.Marshal(x)
	}
	return built{ocispec.Descriptor{MediaType: mt, Digest: digest.FromBytes(c), Size: int64(len(c))}, c}
}

func (m Man) expectedType() string {
	if m.ArtifactType != "" || m.Kind != "image" {
		return m.ArtifactType
	}
	return m.ConfigMT
}

var artTypes = []string{"", "application/vnd.example.sbom", "application/vnd.example.sig", "application/vnd.example.doc"}
var cfgTypes = []string{"application/vnd.oci.image.config.v1+json", "application/vnd.example.sig", "application/vnd.example.cfg"}

func genE2E(r *common.Rand, thorough bool) *E2ECase {
	c := &E2ECase{Seed: r.U64(), SkipGC: r.Chance(1, 4), NSubjects: 1 + r.Intn(3), DistinctPre: r.Chance(1, 3)}
	if r.Chance(1, 2) {
		c.NSubjects = 1
	}
	maxOps := 6
	if thorough {
		maxOps = 10
	}
	newMan := func() int {
		m := Man{Subject: r.Intn(c.NSubjects), Kind: common.Pick(r, []string{"image", "image", "artifact", "index"}),
			ArtifactType: common.Pick(r, artTypes), ConfigMT: common.Pick(r, cfgTypes), Salt: len(c.Mans)}
		switch r.Intn(3) {
		case 1:
			m.Ann = map[string]string{"k": fmt.Sprint(r.Intn(3))}
		case 2:
			m.Ann = map[string]string{"org.example.a": "x", "k": fmt.Sprint(r.Intn(3))}
		}
		if r.Chance(1, 2) {
			m.SubjVar = 1 + r.Intn(3)
		}
		c.Mans = append(c.Mans, m)
		return len(c.Mans) - 1
	}
	live := map[int]bool{}
	c.PreIndex = make([][]int, c.NSubjects)
	npre := r.Intn(4)
	for i := 0; i < npre; i++ {
		k := newMan()
		live[k] = true
		c.PreLive = append(c.PreLive, k)
		s := c.Mans[k].Subject
		c.PreIndex[s] = append(c.PreIndex[s], k)
	}
	for s := range c.PreIndex {
		if len(c.PreIndex[s]) == 0 {
			if r.Chance(1, 3) {
				c.PreIndex[s] = []int{} // an empty index exists
				if r.Chance(1, 2) {
					c.PreIndex[s] = []int{-1}
				}
			}
			continue
		}
		if r.Chance(1, 3) { // duplicates / empties
			n := 1 + r.Intn(2)
			for i := 0; i < n; i++ {
				l := c.PreIndex[s]
				var e int
				if r.Bool() {
					e = -1
				} else {
					e = l[r.Intn(len(l))]
					if e == -1 {
						continue
					}
				}
				p := r.Intn(len(l) + 1)
				l = append(l[:p], append([]int{e}, l[p:]...)...)
				c.PreIndex[s] = l
			}
		}
	}
	nops := 1 + r.Intn(maxOps)
	nrounds := 1 + r.Intn(3)
	id := 0
	deleted := []int{}
	for rd := 0; rd < nrounds && id < nops; rd++ {
		n := 1 + r.Intn(nops-id)
		if rd == nrounds-1 {
			n = nops - id
		}
		used := map[int]bool{}
		var ops []Op
		for i := 0; i < n; i++ {
			var cand []int
			for k := range c.Mans {
				if live[k] && !used[k] {
					cand = append(cand, k)
				}
			}
			sort.Ints(cand)
			if len(cand) > 0 && r.Chance(2, 5) {
				k := common.Pick(r, cand)
				used[k] = true
				ops = append(ops, Op{ID: id, Kind: "delete", Man: k})
				// the same manifest re-pushed (or deleted once more) concurrently: "every multiset
				// of push/delete operations ... issued concurrently" includes same-manifest overlap
				if i+1 < n && r.Chance(1, 5) {
					id++
					i++
					kind := "push"
					if r.Chance(1, 4) {
						kind = "delete"
					}
					ops = append(ops, Op{ID: id, Kind: kind, Man: k})
				}
			} else {
				var k int
				var re []int
				for _, d := range deleted {
					if !live[d] && !used[d] {
						re = append(re, d)
					}
				}
				if len(re) > 0 && r.Chance(1, 4) {
					k = common.Pick(r, re)
				} else {
					k = newMan()
				}
				used[k] = true
				ops = append(ops, Op{ID: id, Kind: "push", Man: k})
			}
			id++
		}
		cnt := map[int]int{}
		for _, o := range ops {
			cnt[o.Man]++
		}
		for _, o := range ops {
			if cnt[o.Man] > 1 {
				// outcome of a same-manifest race is decided by the schedule: keep it out of later rounds
				live[o.Man] = false
				continue
			}
			if o.Kind == "push" {
				live[o.Man] = true
			} else {
				live[o.Man] = false
				deleted = append(deleted, o.Man)
			}
		}
		c.Rounds = append(c.Rounds, ops)
	}
	if r.Chance(1, 2) {
		c.FaultPct = 10 + r.Intn(30)
		c.MaxFaults = 1 + r.Intn(3)
		c.FaultKinds = r.Chance(1, 2)
	}
	return c
}

// ---------- gate ----------

type parked struct {
	ex      *fakereg14.Exchange
	release chan fakereg14.Decision
}

type gate struct {
	mu     sync.Mutex
	open   bool
	parked []*parked
	quit   chan struct{}
}

func (g *gate) Enter(ex *fakereg14.Exchange) fakereg14.Decision {
	g.mu.Lock()
	if g.open || ex.Kind == "referrers" || ex.Op == "" {
		g.mu.Unlock()
		return fakereg14.Decision{}
	}
	p := &parked{ex, make(chan fakereg14.Decision, 1)}
	g.parked = append(g.parked, p)
	g.mu.Unlock()
	select {
	case d := <-p.release:
		return d
	case <-g.quit:
		return fakereg14.Decision{Fail: true, Status: 500}
	}
}

func (g *gate) take() []*parked {
	g.mu.Lock()
	defer g.mu.Unlock()
	out := append([]*parked(nil), g.parked...)
	sort.Slice(out, func(i, j int) bool {
		if out[i].ex.Op != out[j].ex.Op {
			return out[i].ex.Op < out[j].ex.Op
		}
		return out[i].ex.Seq < out[j].ex.Seq
	})
	return out
}

func (g *gate) remove(p *parked) {
	g.mu.Lock()
	defer g.mu.Unlock()
	for i, q := range g.parked {
		if q == p {
			g.parked = append(g.parked[:i], g.parked[i+1:]...)
			return
		}
	}
}

// ---------- run ----------

func outcomeOf(err error) (string, string) {
	if err == nil {
		return "ok", ""
	}
	var re *remote.ReferrersError
	if errors.As(err, &re) && re.IsReferrersIndexDelete() {
		return "idxdel", err.Error()
	}
	return "err", err.Error()
}

func newRepo(reg *fakereg14.Registry) *remote.Repository {
	repo, err := remote.NewRepository("fake.test/" + repoName)
	if err != nil {
		panic(err)
	}
	repo.PlainHTTP = true
	repo.Client = &http.Client{Transport: reg}
	return repo
}

func runE2E(t *testing.T, c *E2ECase) *E2EResult {
	res := &E2EResult{Ops: map[int]OpResult{}}
	synctest.Test(t, func(t *testing.T) { runE2EInner(c, res) })
	return res
}

func runE2EInner(c *E2ECase, res *E2EResult) {
	ctx := context.Background()
	reg := fakereg14.New(fakereg14.TagSchema)
	g := &gate{quit: make(chan struct{})}
	reg.Gate = g
	subj := make([]built, c.NSubjects)
	tags := map[string]int{}
	subjDigests := map[digest.Digest]bool{}
	for s := range subj {
		subj[s] = subjectManifest(s)
		reg.PutManifest(repoName, subj[s].desc.MediaType, subj[s].content)
		tg, _ := remote.VerifBuildReferrersTag(subj[s].desc)
		tags[tg] = s
		subjDigests[subj[s].desc.Digest] = true
	}
	mans := make([]built, len(c.Mans))
	manOf := map[digest.Digest]int{}
	for k, m := range c.Mans {
		mans[k] = buildMan(m, subj[m.Subject].desc)
		manOf[mans[k].desc.Digest] = k
	}
	for _, k := range c.PreLive {
		reg.PutManifest(repoName, mans[k].desc.MediaType, mans[k].content)
	}
	everIdx := make([][]digest.Digest, c.NSubjects)
	for s, l := range c.PreIndex {
		if l == nil {
			continue
		}
		descs := []ocispec.Descriptor{}
		for _, k := range l {
			if k < 0 {
				descs = append(descs, ocispec.Descriptor{})
				continue
			}
			d := mans[k].desc
			d.ArtifactType = c.Mans[k].expectedType()
			d.Annotations = c.Mans[k].Ann
			descs = append(descs, d)
		}
		// exactly what oras-go writes (generateIndex): pre-existing indexes of different subjects
		// with the same content - e.g. the empty index - are then ONE manifest in the registry;
		// DistinctPre keeps them byte-distinct by an annotation
		idx := ocispec.Index{Versioned: specs.Versioned{SchemaVersion: 2}, MediaType: ocispec.MediaTypeImageIndex, Manifests: descs}
		if c.DistinctPre {
			idx.Annotations = map[string]string{"org.example.pre": fmt.Sprint(s)}
		}
		body, _ := json.Marshal(idx)
		tg, _ := remote.VerifBuildReferrersTag(subj[s].desc)
		reg.PutManifest(repoName, ocispec.MediaTypeImageIndex, body, tg)
		everIdx[s] = append(everIdx[s], digest.FromBytes(body))
	}
	var statusMu sync.Mutex
	statusOf := map[int]int{}
	reg.Done = func(ex *fakereg14.Exchange, st int) {
		statusMu.Lock()
		statusOf[ex.Seq] = st
		statusMu.Unlock()
	}
	repo := newRepo(reg)
	repo.SkipReferrersGC = c.SkipGC
	sched := common.NewRand(c.Seed)
	res.Caps = append(res.Caps, remote.VerifReferrersStateC14(repo))
	faults := 0
	dpos := 0
	cpos := 0

	classify := func(ex *fakereg14.Exchange) (string, int) {
		if ex.Kind != "manifest" {
			return "other", -1
		}
		if s, ok := tags[ex.Ref]; ok {
			switch ex.Method {
			case http.MethodGet, http.MethodHead:
				return "idx-get", s
			case http.MethodPut:
				return "idx-put", s
			}
			return "other", s
		}
		if ex.ByDigest {
			d := digest.Digest(ex.Ref)
			if _, ok := manOf[d]; ok || subjDigests[d] {
				switch ex.Method {
				case http.MethodPut:
					return "man-put", -1
				case http.MethodDelete:
					return "man-del", -1
				}
				return "man-get", -1
			}
			if ex.Method == http.MethodDelete {
				return "idx-del", -1
			}
		}
		return "other", -1
	}

	var wg sync.WaitGroup
	for rd, ops := range c.Rounds {
		var mu sync.Mutex
		doneCnt := 0
		for _, o := range ops {
			o := o
			wg.Add(1)
			go func() {
				defer wg.Done()
				octx := fakereg14.WithOp(ctx, fmt.Sprintf("%04d", o.ID))
				var err error
				if o.Kind == "push" {
					err = repo.Push(octx, mans[o.Man].desc, bytes.NewReader(mans[o.Man].content))
				} else {
					err = repo.Delete(octx, mans[o.Man].desc)
				}
				oc, es := outcomeOf(err)
				mu.Lock()
				res.Ops[o.ID] = OpResult{ID: o.ID, Round: rd, Outcome: oc, Err: es}
				doneCnt++
				mu.Unlock()
			}()
		}
		for {
			synctest.Wait()
			mu.Lock()
			fin := doneCnt == len(ops)
			mu.Unlock()
			if fin {
				break
			}
			ps := g.take()
			if len(ps) == 0 {
				// operations are blocked inside oras-go for ever (no exchange is parked):
				// the bubble cannot be left any more; the caller records the violation
				res.Deadlock = true
				res.Decisions = append([]Dec(nil), res.Decisions...)
				onDeadlock(c, res)
				return
			}
			var pick *parked
			var fail bool
			fkind := ""
			followed := false
			if dpos < len(c.Decisions) {
				d := c.Decisions[dpos]
				for _, p := range ps {
					cl, _ := classify(p.ex)
					if p.ex.Op == fmt.Sprintf("%04d", d.Op) && cl == d.Class {
						pick, fail, followed = p, d.Fail, true
						fkind = d.Kind
						break
					}
				}
				dpos++
			}
			if !followed && c.Explore {
				// systematic exploration: options = parked exchanges, each of the index
				// exchanges also failing while the fault budget lasts
				type opt struct {
					p *parked
					f bool
					k string
				}
				var opts []opt
				for _, p := range ps {
					opts = append(opts, opt{p, false, ""})
					if cl, _ := classify(p.ex); strings.HasPrefix(cl, "idx-") && faults < c.MaxFaults {
						opts = append(opts, opt{p, true, ""})
						if cl == "idx-put" || cl == "idx-del" {
							// the PUT / DELETE takes effect and is answered 500 (EPutLost / EDelLost of the model)
							opts = append(opts, opt{p, true, "lost"})
						}
					} else if (cl == "man-put" || cl == "man-del") && faults < c.MaxFaults {
						// the manifest PUT / DELETE takes effect and is answered 500 (LPutLost / LDel of the model)
						opts = append(opts, opt{p, true, "lost"})
					}
				}
				ch := 0
				if cpos < len(c.Choices) {
					ch = c.Choices[cpos]
				}
				cpos++
				c.optCounts = append(c.optCounts, len(opts))
				if ch >= len(opts) {
					ch = 0
				}
				pick, fail, fkind = opts[ch].p, opts[ch].f, opts[ch].k
			} else if !followed {
				pick = ps[sched.Intn(len(ps))]
				cl, _ := classify(pick.ex)
				if strings.HasPrefix(cl, "idx-") && faults < c.MaxFaults && sched.Intn(100) < c.FaultPct {
					fail = true
					if c.FaultKinds {
						switch {
						case (cl == "idx-put" || cl == "idx-del") && sched.Chance(1, 3):
							fkind = "lost"
						case cl == "idx-del" && sched.Chance(1, 3):
							fkind = "404"
						}
					}
				} else if c.FaultKinds && strings.HasPrefix(cl, "man-") && faults < c.MaxFaults && sched.Intn(100) < c.FaultPct/2 {
					// the operation's own manifest exchange fails (fetch / PUT / final DELETE)
					fail = true
					if (cl == "man-put" || cl == "man-del") && sched.Chance(1, 3) {
						fkind = "lost" // the PUT / DELETE of the manifest takes effect, the client gets 500
					}
				}
			}
			if fail {
				faults++
			}
			cl, s := classify(pick.ex)
			ev := Event{N: len(res.Events), Round: rd, Class: cl, Subject: s, Fail: fail}
			fmt.Sscanf(pick.ex.Op, "%d", &ev.Op)
			if cl == "idx-put" {
				if !fail || fkind == "lost" {
					// a lost response: the registry stored the index although the client saw 500
					everIdx[s] = append(everIdx[s], digest.FromBytes(pick.ex.Body))
				}
				var idx ocispec.Index
				if json.Unmarshal(pick.ex.Body, &idx) == nil {
					ev.PutList = []int{}
					for _, d := range idx.Manifests {
						if k, ok := manOf[d.Digest]; ok {
							ev.PutList = append(ev.PutList, k)
						} else if d.Digest == "" {
							ev.PutList = append(ev.PutList, -1)
						} else {
							ev.PutList = append(ev.PutList, -2)
						}
					}
				}
			}
			if cl == "idx-del" {
				// attribute the deletion to the subject whose tag carried that index
				ev.Subject = -1
				if o := opByID(c, ev.Op); o != nil {
					ev.Subject = c.Mans[o.Man].Subject
				}
			}
			tagsBefore := reg.Tags(repoName)
			g.remove(pick)
			dec := fakereg14.Decision{Fail: fail, Status: 500}
			switch fkind {
			case "404":
				dec.Status = 404
			case "lost":
				dec.AfterEffect = true
			}
			ev.Kind = fkind
			pick.release <- dec
			synctest.Wait()
			statusMu.Lock()
			ev.Status = statusOf[pick.ex.Seq]
			statusMu.Unlock()
			if cl == "idx-del" && ev.Status >= 400 {
				ev.Fail = true // e.g. 404: the index was deleted by another tag's update
			}
			tagsAfter := reg.Tags(repoName)
			for name, s2 := range tags {
				if _, was := tagsBefore[name]; was {
					if _, is := tagsAfter[name]; !is && s2 != ev.Subject {
						ev.Dropped = append(ev.Dropped, s2)
					}
				}
			}
			sort.Ints(ev.Dropped)
			ev.Cap = remote.VerifReferrersStateC14(repo)
			res.Caps = append(res.Caps, ev.Cap)
			res.Events = append(res.Events, ev)
			res.Decisions = append(res.Decisions, Dec{Op: ev.Op, Class: cl, Fail: fail, Kind: fkind})
		}
	}
	wg.Wait()
	g.mu.Lock()
	g.open = true
	g.mu.Unlock()

	// observations after quiescence
	toItems := func(ds []ocispec.Descriptor) []Item {
		var out []Item
		for _, d := range ds {
			k, ok := manOf[d.Digest]
			if !ok {
				k = -2
			}
			out = append(out, Item{Man: k, Digest: d.Digest.String(), MediaType: d.MediaType, Size: d.Size, ArtifactType: d.ArtifactType, Ann: d.Annotations})
		}
		return out
	}
	list := func(rp *remote.Repository, s int, at string) Listing {
		var all []ocispec.Descriptor
		err := rp.Referrers(ctx, subj[s].desc, at, func(rs []ocispec.Descriptor) error {
			all = append(all, rs...)
			return nil
		})
		l := Listing{Items: toItems(all)}
		if err != nil {
			l.Err = err.Error()
		}
		return l
	}
	used := map[string]bool{}
	for _, m := range c.Mans {
		if m.expectedType() != "" {
			used[m.expectedType()] = true
		}
	}
	var ut []string
	for k := range used {
		ut = append(ut, k)
	}
	sort.Strings(ut)
	if len(ut) > 0 {
		res.FilterType = ut[sched.Intn(len(ut))]
	}
	for s := range subj {
		res.Listings = append(res.Listings, list(repo, s, ""))
		ps, err := repo.Predecessors(ctx, subj[s].desc)
		pl := Listing{Items: toItems(ps)}
		if err != nil {
			pl.Err = err.Error()
		}
		res.Preds = append(res.Preds, pl)
		if res.FilterType != "" {
			res.Filtered = append(res.Filtered, list(repo, s, res.FilterType))
		}
	}
	res.Caps = append(res.Caps, remote.VerifReferrersStateC14(repo))
	stored := reg.Manifests(repoName)
	tg := reg.Tags(repoName)
	res.Live = make([]bool, len(c.Mans))
	for k := range c.Mans {
		_, res.Live[k] = stored[mans[k].desc.Digest]
	}
	res.IndexTagged = make([][]int, c.NSubjects)
	res.IndexArts = make([][]string, c.NSubjects)
	tagged := map[digest.Digest]bool{}
	for name, d := range tg {
		tagged[d] = true
		if s, ok := tags[name]; ok {
			var idx ocispec.Index
			l := []int{}
			if json.Unmarshal(stored[d].Content, &idx) == nil {
				for _, e := range idx.Manifests {
					if k, ok := manOf[e.Digest]; ok {
						l = append(l, k)
					} else if e.Digest == "" {
						l = append(l, -1)
					} else {
						l = append(l, -2)
					}
				}
			}
			res.IndexTagged[s] = l
			for _, e := range idx.Manifests {
				res.IndexArts[s] = append(res.IndexArts[s], e.ArtifactType)
			}
		}
	}
	for d, st := range stored {
		if _, ok := manOf[d]; ok || subjDigests[d] || tagged[d] {
			continue
		}
		if st.MediaType == ocispec.MediaTypeImageIndex {
			res.Dangling = append(res.Dangling, d.String())
		}
	}
	sort.Strings(res.Dangling)
	res.DanglingOf = make([]int, c.NSubjects)
	for s := range everIdx {
		tgn, _ := remote.VerifBuildReferrersTag(subj[s].desc)
		seenD := map[digest.Digest]bool{}
		for _, d := range everIdx[s] {
			// a manifest that some referrers tag points at is current (possibly for another
			// subject: identical indexes are one manifest), not dangling
			if _, ok := stored[d]; ok && !seenD[d] && tg[tgn] != d && !tagged[d] {
				res.DanglingOf[s]++
			}
			seenD[d] = true
		}
	}

	// the same live manifests on a registry with the Referrers API
	regB := fakereg14.New(fakereg14.ReferrersAPI)
	repoB := newRepo(regB)
	for s := range subj {
		if err := repoB.Push(ctx, subj[s].desc, bytes.NewReader(subj[s].content)); err != nil {
			panic(err)
		}
	}
	for k := range c.Mans {
		if res.Live[k] {
			if err := repoB.Push(ctx, mans[k].desc, bytes.NewReader(mans[k].content)); err != nil {
				panic(err)
			}
		}
	}
	for s := range subj {
		res.API = append(res.API, list(repoB, s, ""))
	}
}

// onDeadlock records the violation and stops the harness (a synctest bubble with
// blocked goroutines cannot be left).
var onDeadlock = func(c *E2ECase, res *E2EResult) {}

func opByID(c *E2ECase, id int) *Op {
	for _, r := range c.Rounds {
		for i := range r {
			if r[i].ID == id {
				return &r[i]
			}
		}
	}
	return nil
}

// ---------- oracle ----------

type failure struct{ sig, msg string }

func annEq(a, b map[string]string) bool {
	if len(a) != len(b) {
		return false
	}
	for k, v := range a {
		if w, ok := b[k]; !ok || w != v {
			return false
		}
	}
	return true
}

func checkE2E(c *E2ECase, res *E2EResult) []failure {
	var fs []failure
	add := func(sig, f string, a ...any) { fs = append(fs, failure{sig, fmt.Sprintf(f, a...)}) }
	if res.Deadlock {
		add("deadlock", "no exchange parked and operations still pending after %d events", len(res.Events))
		return fs
	}
	// last op per manifest
	last := map[int]Op{}
	lastRound := map[int]int{}
	for rd, ops := range c.Rounds {
		for _, o := range ops {
			last[o.Man] = o
			lastRound[o.Man] = rd
		}
	}
	const (
		in = iota
		out
		uncertain
		aborted
	)
	status := make([]int, len(c.Mans))
	raceHit := false
	// operations on the same manifest issued concurrently (same round): overlap[k] = they all
	// returned without a plain error; raced[k] = a push and a delete among them
	overlap := map[int]bool{}
	raced := map[int]bool{}
	overlapErr := map[int]bool{}
	for k := range c.Mans {
		rd, touched := lastRound[k]
		if !touched {
			continue
		}
		np, nd := 0, 0
		for _, o := range c.Rounds[rd] {
			if o.Man == k {
				if o.Kind == "push" {
					np++
				} else {
					nd++
				}
				if res.Ops[o.ID].Outcome == "err" {
					overlapErr[k] = true
				}
			}
		}
		if np+nd > 1 {
			overlap[k] = true
			raced[k] = np > 0 && nd > 0
		}
	}
	for k := range c.Mans {
		o, touched := last[k]
		switch {
		case overlap[k]:
			// ground truth is the registry: the manifest PUT / DELETE exchanges decide liveness
			switch {
			case overlapErr[k]:
				status[k] = uncertain
			case res.Live[k]:
				status[k] = in
			default:
				status[k] = out
			}
		case !touched:
			if res.Live[k] {
				status[k] = in
			} else {
				status[k] = out // never pushed
			}
		case res.Ops[o.ID].Outcome == "err":
			status[k] = uncertain
		case o.Kind == "push":
			if res.Live[k] {
				status[k] = in
			} else {
				status[k] = uncertain
				add("push-not-live", "push op %d of manifest %d returned %s but the manifest is not in the registry", o.ID, k, res.Ops[o.ID].Outcome)
			}
		default: // delete, ok or idxdel
			if res.Live[k] {
				status[k] = aborted
				inIdx := false
				for _, e := range res.IndexTagged[c.Mans[k].Subject] {
					if e == k {
						inIdx = true
					}
				}
				if inIdx {
					// nothing happened at all, yet the error says that only the clean-up failed
					add("idxdel-no-effect", "delete op %d of manifest %d returned %q (%s) but neither the index %v nor the manifest changed", o.ID, k, res.Ops[o.ID].Outcome, res.Ops[o.ID].Err, res.IndexTagged[c.Mans[k].Subject])
				} else {
					add("delete-aborted", "delete op %d of manifest %d returned %q (%s): the index no longer lists the manifest but the manifest is still in the registry", o.ID, k, res.Ops[o.ID].Outcome, res.Ops[o.ID].Err)
				}
			} else {
				status[k] = out
			}
		}
	}
	failedDel := map[int]map[int]int{} // round -> subject -> failed idx-del
	failedAny := map[int]int{}
	nFailedDel := 0
	for _, e := range res.Events {
		if e.Fail {
			failedAny[e.Round]++
			if e.Kind == "lost" && e.Class == "idx-put" {
				nFailedDel++ // the PUT took effect, the update stopped before deleting the old index
			}
			if e.Class == "idx-del" {
				nFailedDel++
				if failedDel[e.Round] == nil {
					failedDel[e.Round] = map[int]int{}
				}
				failedDel[e.Round][e.Subject]++
			}
		}
	}
	for s := 0; s < c.NSubjects; s++ {
		l := res.Listings[s]
		raceHit = false
		if l.Err != "" {
			add("list-error", "Referrers(subject %d) failed: %s", s, l.Err)
			continue
		}
		// a subject whose index was never rewritten by a successful operation keeps its
		// pre-existing content; duplicates / empty entries in it are a separate clause
		rewritten := false
		for _, ops := range c.Rounds {
			for _, o := range ops {
				if c.Mans[o.Man].Subject == s && res.Ops[o.ID].Outcome != "err" {
					rewritten = true
				}
			}
		}
		dirtyPre := false
		if !rewritten {
			cnt := map[int]int{}
			for _, k := range c.PreIndex[s] {
				cnt[k]++
				if k < 0 || cnt[k] > 1 {
					dirtyPre = true
				}
			}
		}
		seen := map[string]bool{}
		got := map[int]Item{}
		for _, it := range l.Items {
			if seen[it.Digest] || it.Digest == "" {
				if dirtyPre {
					if !seen["*dirty*"] {
						add("dirty-index-verbatim", "subject %d: no operation rewrote its referrers index %v and Referrers() lists its duplicate/empty entries verbatim", s, c.PreIndex[s])
					}
					seen["*dirty*"] = true
					continue
				}
				if it.Digest == "" {
					add("empty-entry", "subject %d: an empty descriptor is listed", s)
					continue
				}
				add("dup-entry", "subject %d: %s listed twice", s, it.Digest)
			}
			seen[it.Digest] = true
			if it.Man < 0 {
				add("stale-entry", "subject %d: unknown entry %s listed", s, it.Digest)
				continue
			}
			got[it.Man] = it
			m := c.Mans[it.Man]
			if m.Subject != s {
				add("stale-entry", "subject %d lists manifest %d whose subject is %d", s, it.Man, m.Subject)
			}
			if status[it.Man] == out {
				if raced[it.Man] {
					raceHit = true
					add("same-manifest-race", "subject %d lists manifest %d which is not in the registry: Push and Delete of that manifest ran concurrently, both returned without error", s, it.Man)
				} else {
					add("stale-entry", "subject %d lists manifest %d which is not live", s, it.Man)
				}
			}
			if status[it.Man] != out && (it.ArtifactType != m.expectedType() || !annEq(it.Ann, m.Ann)) {
				add("decoration", "subject %d manifest %d listed with artifactType %q annotations %v, expected %q %v", s, it.Man, it.ArtifactType, it.Ann, m.expectedType(), m.Ann)
			}
		}
		hasUncertain := false
		racedSubject := false
		for k, m := range c.Mans {
			if m.Subject != s {
				continue
			}
			if status[k] == uncertain || status[k] == aborted {
				hasUncertain = true
			}
			if raced[k] && m.Subject == s {
				racedSubject = true
			}
			if _, ok := got[k]; !ok && status[k] == in && raced[k] {
				raceHit = true
				add("same-manifest-race", "subject %d: manifest %d is in the registry but not listed: Push and Delete of that manifest ran concurrently, both returned without error", s, k)
			} else if _, ok := got[k]; !ok && status[k] == in {
				add("lost-update", "subject %d: live manifest %d (last op %+v) is not listed; listing %v index %v", s, k, last[k], keysOf(got), res.IndexTagged[s])
			}
		}
		if seen["*dirty*"] {
			continue
		}
		// Predecessors
		pset := map[string]int{}
		for _, it := range res.Preds[s].Items {
			pset[it.Digest]++
		}
		if res.Preds[s].Err != "" || len(pset) != len(seen) || len(res.Preds[s].Items) != len(l.Items) {
			add("preds-mismatch", "subject %d: Predecessors %d items (err %q) vs Referrers %d", s, len(res.Preds[s].Items), res.Preds[s].Err, len(l.Items))
		} else {
			for d := range seen {
				if pset[d] != 1 {
					add("preds-mismatch", "subject %d: %s in Referrers but %d times in Predecessors", s, d, pset[d])
				}
			}
		}
		// filter
		if res.FilterType != "" {
			want := map[string]bool{}
			for _, it := range l.Items {
				if it.ArtifactType == res.FilterType {
					want[it.Digest] = true
				}
			}
			gotf := map[string]bool{}
			for _, it := range res.Filtered[s].Items {
				gotf[it.Digest] = true
			}
			if res.Filtered[s].Err != "" || len(want) != len(gotf) || len(gotf) != len(res.Filtered[s].Items) {
				add("filter", "subject %d type %q: filtered %d want %d", s, res.FilterType, len(res.Filtered[s].Items), len(want))
			}
			for d := range want {
				if !gotf[d] {
					add("filter", "subject %d type %q: %s missing from the filtered listing", s, res.FilterType, d)
				}
			}
		}
		// Referrers API registry
		if !hasUncertain && !(racedSubject && raceHit) {
			a := res.API[s]
			am := map[string]Item{}
			for _, it := range a.Items {
				am[it.Digest] = it
			}
			if a.Err != "" || len(am) != len(seen) {
				add("api-mismatch", "subject %d: tag schema lists %d, Referrers API lists %d (err %q)", s, len(seen), len(am), a.Err)
			} else {
				for _, it := range l.Items {
					b, ok := am[it.Digest]
					if !ok || b.ArtifactType != it.ArtifactType || !annEq(b.Ann, it.Ann) || b.MediaType != it.MediaType || b.Size != it.Size {
						add("api-mismatch", "subject %d: %s listed as %+v by tag schema, %+v (present=%v) by the Referrers API", s, it.Digest, it, b, ok)
					}
				}
			}
		}
	}
	// per-op error clauses
	for rd, ops := range c.Rounds {
		for _, o := range ops {
			r := res.Ops[o.ID]
			s := c.Mans[o.Man].Subject
			// an earlier operation on this manifest failed: what a later one finds is not determined
			tainted := false
			for rd0 := 0; rd0 < rd; rd0++ {
				for _, o0 := range c.Rounds[rd0] {
					if o0.Man == o.Man && res.Ops[o0.ID].Outcome == "err" {
						tainted = true
					}
				}
			}
			if r.Outcome != "ok" && failedAny[rd] == 0 && !overlap[o.Man] && !tainted {
				add("unexpected-error", "op %d (%s manifest %d) returned %s without any injected failure: %s", o.ID, o.Kind, o.Man, r.Outcome, r.Err)
			}
			if r.Outcome == "idxdel" {
				if failedDel[rd][s] == 0 {
					add("idxdel-unjustified", "op %d returned a referrers-index-delete error but no index deletion of subject %d failed in round %d", o.ID, s, rd)
				}
				if last[o.Man].ID == o.ID && status[o.Man] != aborted && !overlap[o.Man] {
					inIdx := false
					for _, k := range res.IndexTagged[s] {
						if k == o.Man {
							inIdx = true
						}
					}
					if o.Kind == "push" && !inIdx {
						add("idxdel-no-effect", "push op %d returned a referrers-index-delete error but manifest %d is not in the index %v of subject %d", o.ID, o.Man, res.IndexTagged[s], s)
					}
					if o.Kind == "delete" && inIdx {
						add("idxdel-no-effect", "delete op %d returned a referrers-index-delete error but manifest %d is still in the index %v of subject %d", o.ID, o.Man, res.IndexTagged[s], s)
					}
				}
			}
		}
	}
	for _, e := range res.Events {
		if e.Fail && strings.HasPrefix(e.Class, "man-") && e.Kind != "lost" {
			if r, ok := res.Ops[e.Op]; ok && r.Outcome != "err" {
				add("swallowed-error", "op %d returned %q although its %s exchange was answered %d", e.Op, r.Outcome, e.Class, e.Status)
			}
		}
	}
	if !c.SkipGC && len(res.Dangling) > nFailedDel {
		add("dangling-index", "%d dangling referrers index manifests %v with %d failed index deletions", len(res.Dangling), res.Dangling, nFailedDel)
	}
	if c.SkipGC {
		for _, e := range res.Events {
			if e.Class == "idx-del" {
				add("gc-not-skipped", "index deletion issued although SkipReferrersGC is set")
				break
			}
		}
	}
	first := int32(0)
	for i, v := range res.Caps {
		if first == 0 {
			first = v
		} else if v != first {
			add("capability-flip", "capability state changed from %d to %d at sample %d", first, v, i)
			break
		}
	}
	if n := len(res.Caps); n > 0 && res.Caps[n-1] == 1 {
		add("capability-flip", "capability detected as supported on a registry without the Referrers API")
	}
	return fs
}

func keysOf(m map[int]Item) []int {
	var ks []int
	for k := range m {
		ks = append(ks, k)
	}
	sort.Ints(ks)
	return ks
}
