//go:build go1.25

package c14

import (
	"testing"

	"verifharness/common"
)

// MergeCase is filled in by merge_impl_test.go.
type MergeCase struct {
	Seed uint64 `json:"seed"`
}

func genMerge(r *common.Rand, thorough bool) *MergeCase { return nil }
func mergeCase(t *testing.T, c *MergeCase)              {}
