//go:build go1.25

package c14

// M: the real syncutil.Merge / Pool (hook package verifhooks) driven under
// testing/synctest with scripted prepare / resolve.  The resolve closure has the
// skeleton of manifestStore.updateReferrersIndex (PUT the new index, then DELETE
// the old one when there was one); every prepare / PUT / DELETE parks in a gate
// and the harness releases one parked call at a time (ok or failing) or starts
// the next caller.  The visible event sequence is replayed by the extracted
// Merge transition system; batches, per-caller results and the final index must
// agree.  K: SetReferrersCapability sequences against the CAS model.

import (
	"errors"
	"fmt"
	"os"

	ocispec "github.com/opencontainers/image-spec/specs-go/v1"
	"sort"
	"strings"
	"sync"
	"testing"
	"testing/synctest"

	"oras.land/oras-go/v2/registry/remote"
	"oras.land/oras-go/v2/verifhooks"
	"verifharness/common"
)

type MergeCase struct {
	Seed    uint64 `json:"seed"`
	N       int    `json:"n"`
	FailPct int    `json:"fail_pct"`
	// Script, when present, is followed instead of the PRNG: G<t> P<t>:<f> U<t>:<f> D<t>:<f>
	Script []string `json:"script,omitempty"`
	// Caps is a SetReferrersCapability sequence (K case) when non-nil.
	Caps []bool `json:"caps,omitempty"`
	// systematic exploration (replays use Script)
	Explore   bool  `json:"-"`
	Choices   []int `json:"-"`
	MaxFail   int   `json:"-"`
	optCounts []int
}

// exploreMerge enumerates every schedule (start order x release order x failures,
// at most maxFail failures) of n callers, up to limit runs.
func exploreMerge(t *testing.T, n, maxFail, limit int) int {
	var choices []int
	runs := 0
	for runs < limit {
		c := &MergeCase{N: n, Explore: true, Choices: choices, MaxFail: maxFail}
		mergeCase(t, c)
		runs++
		// odometer: advance the last position that still has an untried option
		cur := make([]int, len(c.optCounts))
		copy(cur, choices)
		i := len(cur) - 1
		for i >= 0 && cur[i]+1 >= c.optCounts[i] {
			i--
		}
		if i < 0 {
			break
		}
		cur[i]++
		choices = cur[:i+1]
	}
	return runs
}

func genMerge(r *common.Rand, thorough bool) *MergeCase {
	if r.Chance(1, 10) {
		n := 1 + r.Intn(4)
		c := &MergeCase{Caps: make([]bool, n)}
		for i := range c.Caps {
			c.Caps[i] = r.Bool()
		}
		return c
	}
	max := 5
	if thorough {
		max = 7
	}
	c := &MergeCase{Seed: r.U64(), N: 1 + r.Intn(max)}
	if r.Chance(1, 2) {
		c.FailPct = 10 + r.Intn(40)
	}
	return c
}

var errOther = errors.New("injected failure")
var errIdxDel = errors.New("injected index deletion failure")

type mgate struct {
	kind    string // P U D
	t       int
	release chan bool // true = fail
}

func capCase(c *MergeCase) {
	id := run.NewID()
	repo, _ := remote.NewRepository("fake.test/r")
	var in, out []string
	for _, b := range c.Caps {
		err := repo.SetReferrersCapability(b)
		e := 0
		if err != nil {
			if errors.Is(err, remote.ErrReferrersCapabilityAlreadySet) {
				e = 1
			} else {
				e = 2
			}
		}
		bb := 0
		if b {
			bb = 1
		}
		in = append(in, fmt.Sprint(bb))
		out = append(out, fmt.Sprintf("%d/%d", remote.VerifReferrersStateC14(repo), e))
	}
	run.Count("K/caps")
	run.Case(id, "K "+strings.Join(in, ""), "K "+strings.Join(out, ","))
	// oracle: the state is the first value set and never changes; an error iff a different value is requested
	want := int32(2)
	if c.Caps[0] {
		want = 1
	}
	for i, o := range out {
		e := 0
		if c.Caps[i] != c.Caps[0] {
			e = 1
		}
		if o != fmt.Sprintf("%d/%d", want, e) {
			run.OracleFail(id, "capability-flip", fmt.Sprintf("SetReferrersCapability sequence %v observed %v", c.Caps, out), map[string]any{"kind": "M", "case": c})
			break
		}
	}
}

func mergeCase(t *testing.T, c *MergeCase) {
	if c == nil {
		return
	}
	if c.Caps != nil {
		capCase(c)
		return
	}
	id := run.NewID()
	var events []string
	var batches []string
	results := make([]string, c.N)
	index := map[int]bool{}
	indexPresent := false
	deadlock := false
	twoMains := false
	synctest.Test(t, func(t *testing.T) {
		var pool verifhooks.MergePool
		var mu sync.Mutex
		var parked []*mgate
		quit := make(chan struct{})
		_ = quit
		park := func(kind string, th int) bool {
			g := &mgate{kind, th, make(chan bool, 1)}
			mu.Lock()
			parked = append(parked, g)
			mu.Unlock()
			select {
			case f := <-g.release:
				return f
			case <-quit:
				return true
			}
		}
		var wg sync.WaitGroup
		done := 0
		start := func(th int) {
			wg.Add(1)
			go func() {
				defer wg.Done()
				var old map[int]bool
				oldPresent := false
				// the Pool key is the referrers tag of the caller's subject descriptor; callers
				// name the same subject digest with different media types / sizes
				sd := ocispec.Descriptor{MediaType: tagMTs[th%len(tagMTs)], Digest: dA, Size: int64((th % 3) * 7)}
				key, kerr := remote.VerifBuildReferrersTag(sd)
				if kerr != nil {
					key = "ERR"
				}
				err := pool.Do(key, th, func() error {
					if park("P", th) {
						return errOther
					}
					mu.Lock()
					old = map[int]bool{}
					for k := range index {
						old[k] = true
					}
					oldPresent = indexPresent
					mu.Unlock()
					return nil
				}, func(items []int) error {
					mu.Lock()
					s := make([]string, len(items))
					for i, it := range items {
						s[i] = fmt.Sprint(it)
					}
					batches = append(batches, fmt.Sprintf("%d:%s", th, strings.Join(s, ",")))
					mu.Unlock()
					if park("U", th) {
						return errOther
					}
					mu.Lock()
					for _, it := range items {
						old[it] = true
					}
					index = old
					indexPresent = true
					mu.Unlock()
					if !oldPresent {
						return nil
					}
					if park("D", th) {
						return errIdxDel
					}
					return nil
				})
				mu.Lock()
				switch {
				case err == nil:
					results[th] = "ok"
				case errors.Is(err, errIdxDel):
					results[th] = "idxdel"
				default:
					results[th] = "err"
				}
				done++
				mu.Unlock()
			}()
		}
		sched := common.NewRand(c.Seed)
		next := 0
		spos := 0
		cpos := 0
		for {
			synctest.Wait()
			mu.Lock()
			ps := append([]*mgate(nil), parked...)
			fin := done == c.N
			mu.Unlock()
			if fin {
				break
			}
			if len(ps) > 1 {
				twoMains = true
			}
			sort.Slice(ps, func(i, j int) bool { return ps[i].t < ps[j].t })
			var pick *mgate
			fail := false
			startNew := false
			if spos < len(c.Script) {
				ev := c.Script[spos]
				spos++
				var th, f int
				if ev[0] == 'G' {
					fmt.Sscanf(ev[1:], "%d", &th)
					if th == next && next < c.N {
						startNew = true
					}
				} else {
					fmt.Sscanf(ev[1:], "%d:%d", &th, &f)
					for _, p := range ps {
						if p.t == th && p.kind == ev[:1] {
							pick, fail = p, f == 1
						}
					}
				}
			}
			if pick == nil && !startNew {
				opts := len(ps)
				if next < c.N {
					opts++
				}
				if opts == 0 {
					// callers are blocked inside Merge for ever: the bubble cannot be left
					// any more, so record the violation and stop the harness here
					deadlock = true
					rc := *c
					rc.Script = events
					mu.Lock()
					rs := append([]string(nil), results...)
					mu.Unlock()
					run.Case(id, fmt.Sprintf("M %d %s", c.N, strings.Join(events, " ")), "DEADLOCK")
					run.OracleFail(id, "merge-deadlock", fmt.Sprintf("callers blocked forever after %v (results %v)", events, rs), map[string]any{"kind": "M", "case": rc})
					run.Finish()
					os.Exit(0)
				}
				var k int
				if c.Explore {
					// systematic exploration: the option list is (gate, ok), (gate, fail)
					// per parked call (fail only while the budget lasts), then "start"
					nf := 0
					for _, e := range events {
						if strings.HasSuffix(e, ":1") {
							nf++
						}
					}
					per := 1
					if nf < c.MaxFail {
						per = 2
					}
					total := len(ps) * per
					if next < c.N {
						total++
					}
					ch := 0
					if cpos < len(c.Choices) {
						ch = c.Choices[cpos]
					}
					cpos++
					c.optCounts = append(c.optCounts, total)
					if ch >= total {
						ch = 0
					}
					if ch < len(ps)*per {
						k = ch / per
						pick = ps[k]
						fail = ch%per == 1
					} else {
						k = len(ps)
					}
				} else {
					k = sched.Intn(opts)
				}
				if pick != nil {
				} else if k < len(ps) {
					pick = ps[k]
					fail = sched.Intn(100) < c.FailPct
				} else {
					startNew = true
				}
			}
			if startNew {
				events = append(events, fmt.Sprintf("G%d", next))
				start(next)
				next++
				continue
			}
			f := 0
			if fail {
				f = 1
			}
			events = append(events, fmt.Sprintf("%s%d:%d", pick.kind, pick.t, f))
			mu.Lock()
			for i, q := range parked {
				if q == pick {
					parked = append(parked[:i], parked[i+1:]...)
					break
				}
			}
			mu.Unlock()
			pick.release <- fail
		}
		wg.Wait()
	})
	var keys []int
	for k := range index {
		keys = append(keys, k)
	}
	sort.Ints(keys)
	ks := make([]string, len(keys))
	for i, k := range keys {
		ks[i] = fmt.Sprint(k)
	}
	rs := make([]string, c.N)
	for i, r := range results {
		rs[i] = fmt.Sprintf("%d=%s", i, r)
	}
	obs := fmt.Sprintf("ACC B %s R %s I %s", dash(strings.Join(batches, ";")), strings.Join(rs, ","), dash(strings.Join(ks, ",")))
	rc := *c
	rc.Script = events
	rp := map[string]any{"kind": "M", "case": rc}
	run.Count(fmt.Sprintf("M/callers=%d", c.N))
	multi := false
	for _, b := range batches {
		if strings.Contains(b, ",") {
			multi = true
		}
	}
	if multi {
		run.Count("M/multi-item-batch")
	}
	if multi || len(batches) > 1 {
		run.Nontrivial("M " + strings.Join(events, " "))
		if multi && c.FailPct > 0 {
			run.Sample(map[string]any{"kind": "M", "events": strings.Join(events, " "), "impl": obs})
		}
	}
	if deadlock {
		return
	}
	run.Case(id, fmt.Sprintf("M %d %s", c.N, strings.Join(events, " ")), obs)
	// ---- independent oracle ----
	if twoMains {
		run.OracleFail(id, "two-mains", fmt.Sprintf("two callers were between prepare and complete at the same time: %v", events), rp)
	}
	// a caller's item is in the final index iff it returned ok / idxdel
	seen := map[int]int{}
	for _, b := range batches {
		p := strings.SplitN(b, ":", 2)
		for _, it := range strings.Split(p[1], ",") {
			var k int
			fmt.Sscanf(it, "%d", &k)
			seen[k]++
		}
	}
	for th, r := range results {
		if (r != "err") != index[th] {
			run.OracleFail(id, "merge-lost-update", fmt.Sprintf("caller %d returned %s but its item presence in the index is %v; events %v batches %v", th, r, index[th], events, batches), rp)
			break
		}
		if seen[th] > 1 {
			run.OracleFail(id, "merge-item-twice", fmt.Sprintf("item %d was handed to resolve %d times", th, seen[th]), rp)
			break
		}
	}
}

func dash(s string) string {
	if s == "" {
		return "-"
	}
	return s
}
