//go:build go1.25

// C14 harness (test binary: testing/synctest needs a *testing.T).
//
//	A  applyReferrerChanges / removeEmptyDescriptors / filterReferrers differential
//	   (hooks in registry/remote) + independent set-semantics oracle
//	M  syncutil.Merge / Pool (hook package verifhooks) under synctest with scripted
//	   prepare/resolve, compared with the Merge LTS model
//	E  end-to-end concurrent push/delete of referrers through one Repository
//	   against the fake tag-schema registry with controlled release order and
//	   injected failures; independent oracle
package c14

import (
	_ "crypto/sha256"
	_ "crypto/sha512"
	"encoding/json"
	"fmt"
	"os"
	"strings"
	"testing"

	"verifharness/common"
)

var run *common.Run

func TestMain(m *testing.M) {
	run = common.Start("C14")
	code := m.Run()
	run.Finish()
	os.Exit(code)
}

func TestVerif(t *testing.T) {
	run.Rule = "A: old list with a duplicate/empty entry or a change that hits an existing key; M: >=2 callers on one key with a batch of >=2 items or a pending batch; E: >=2 concurrent ops on one subject or an injected index failure"
	if run.Replay != "" {
		for _, c := range common.ReadReplay(run.Replay) {
			switch c["kind"] {
			case "A":
				applyCase(c["line"])
			case "M":
				var mc MergeCase
				if err := json.Unmarshal([]byte(c["case"]), &mc); err != nil {
					t.Fatalf("bad replay case: %v", err)
				}
				mergeCase(t, &mc)
			case "E":
				var ec E2ECase
				if err := json.Unmarshal([]byte(c["case"]), &ec); err != nil {
					t.Fatalf("bad replay case: %v", err)
				}
				e2eCase(t, &ec)
			default:
				if l, ok := c["raw"]; ok {
					applyCase(l)
				}
			}
		}
		return
	}
	r := run.Rand
	na := run.Scale(2000, 40000)
	ra := r.Fork()
	applyFixed()
	for i := 0; i < na; i++ {
		applyCase(genApplyLine(ra))
	}
	nm := run.Scale(150, 3000)
	rm := r.Fork()
	for i := 0; i < nm; i++ {
		mergeCase(t, genMerge(rm, run.Thorough()))
	}
	ne := run.Scale(120, 3000)
	re := r.Fork()
	for i := 0; i < ne; i++ {
		e2eCase(t, genE2E(re, run.Thorough()))
	}
}

func e2eCase(t *testing.T, c *E2ECase) {
	id := run.NewID()
	onDeadlock = func(c *E2ECase, res *E2EResult) {
		rc := c.clone()
		rc.Decisions = res.Decisions
		run.Case(id, "E deadlock", "E deadlock")
		run.OracleFail(id, "deadlock", fmt.Sprintf("operations blocked for ever with no HTTP exchange pending after %d events", len(res.Events)), map[string]any{"kind": "E", "case": rc})
		run.Finish()
		os.Exit(0)
	}
	res := runE2E(t, c)
	fs := checkE2E(c, res)
	nops, nfail := 0, 0
	for _, rd := range c.Rounds {
		nops += len(rd)
	}
	for _, e := range res.Events {
		if e.Fail {
			nfail++
		}
	}
	run.Count(fmt.Sprintf("E/ops=%d", nops))
	run.Count(fmt.Sprintf("E/subjects=%d", c.NSubjects))
	run.Count(fmt.Sprintf("E/faults=%d", nfail))
	if c.SkipGC {
		run.Count("E/skipgc")
	}
	for _, o := range res.Ops {
		run.Count("E/outcome=" + o.Outcome)
	}
	conc := false
	for _, rd := range c.Rounds {
		per := map[int]int{}
		for _, o := range rd {
			per[c.Mans[o.Man].Subject]++
			if per[c.Mans[o.Man].Subject] >= 2 {
				conc = true
			}
		}
	}
	rc := c.clone()
	rc.Decisions = res.Decisions
	if conc || nfail > 0 {
		js, _ := json.Marshal(rc)
		run.Nontrivial("E " + string(js))
		if nfail > 0 && conc {
			run.Sample(map[string]any{"kind": "E", "ops": nops, "events": len(res.Events), "faults": nfail, "index": res.IndexTagged})
		}
	}
	run.Case(id, "E "+fmt.Sprint(len(res.Events)), "E "+fmt.Sprint(len(res.Events)))
	// correspondence: the exchanges on each referrers tag, as released by the gate,
	// are a schedule of the Merge transition system of that tag (X line); the model
	// must accept it and predict every caller's result and the final index
	if !res.Deadlock {
		for s := 0; s < c.NSubjects; s++ {
			if in, obs, ok := xLine(c, res, s); ok {
				run.Case(run.NewID(), in, obs)
				run.TracesAgainstImpl++
			}
		}
	}
	seen := map[string]bool{}
	for _, f := range fs {
		if seen[f.sig] {
			continue
		}
		seen[f.sig] = true
		run.OracleFail(id, f.sig, f.msg, map[string]any{"kind": "E", "case": rc})
	}
}

func (c *E2ECase) clone() *E2ECase {
	js, _ := json.Marshal(c)
	var d E2ECase
	json.Unmarshal(js, &d)
	return &d
}

// xLine projects an end-to-end run onto one subject: model input and the
// implementation's observable (results of the callers, final index).
func xLine(c *E2ECase, res *E2EResult, s int) (string, string, bool) {
	local := map[int]int{}
	var specs, rs []string
	for _, ops := range c.Rounds {
		for _, o := range ops {
			if c.Mans[o.Man].Subject != s {
				continue
			}
			local[o.ID] = len(specs)
			sign := "+"
			if o.Kind == "delete" {
				sign = "~"
			}
			specs = append(specs, fmt.Sprintf("%s%d:0:0", sign, o.Man+1))
			rs = append(rs, fmt.Sprintf("%d=%s", len(rs), res.Ops[o.ID].Outcome))
		}
	}
	if len(specs) == 0 {
		return "", "", false
	}
	keyList := func(l []int) string {
		if l == nil {
			return "none"
		}
		if len(l) == 0 {
			return "-"
		}
		out := make([]string, len(l))
		for i, k := range l {
			switch {
			case k == -1:
				out[i] = "0"
			case k < 0:
				out[i] = "999"
			default:
				out[i] = fmt.Sprint(k + 1)
			}
		}
		return strings.Join(out, ",")
	}
	var evs []string
	for _, e := range res.Events {
		t, ok := local[e.Op]
		if !ok {
			continue
		}
		f := 0
		if e.Fail {
			f = 1
		}
		switch e.Class {
		case "man-put", "man-get":
			evs = append(evs, fmt.Sprintf("G%d", t))
		case "idx-get":
			evs = append(evs, fmt.Sprintf("P%d:%d", t, f))
		case "idx-put":
			evs = append(evs, fmt.Sprintf("U%d:%d", t, f))
		case "idx-del":
			evs = append(evs, fmt.Sprintf("D%d:%d", t, f))
		}
	}
	sg := 0
	if c.SkipGC {
		sg = 1
	}
	in := fmt.Sprintf("X %d %s %s %s", sg, keyList(c.PreIndex[s]), strings.Join(specs, ","), strings.Join(evs, " "))
	obs := fmt.Sprintf("ACC R %s I %s", strings.Join(rs, ","), keyList(res.IndexTagged[s]))
	return in, obs, true
}
