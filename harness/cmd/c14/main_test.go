//go:build go1.25

// C14 harness (test binary: testing/synctest needs a *testing.T).
//
//	A  applyReferrerChanges / removeEmptyDescriptors / filterReferrers differential
//	   (hooks in registry/remote) + independent set-semantics oracle
//	M  syncutil.Merge / Pool (hook package verifhooks) under synctest with scripted
//	   prepare/resolve, compared with the Merge LTS model
//	E  end-to-end concurrent push/delete of referrers through one Repository
//	   against the fake tag-schema registry with controlled release order and
//	   injected failures; independent oracle
package c14

import (
	_ "crypto/sha256"
	_ "crypto/sha512"
	"encoding/hex"
	"encoding/json"
	"fmt"
	"os"
	"sort"
	"strings"
	"testing"

	"verifharness/common"
)

var run *common.Run

func TestMain(m *testing.M) {
	run = common.Start("C14")
	code := m.Run()
	run.Finish()
	os.Exit(code)
}

func TestVerif(t *testing.T) {
	run.Rule = "A: old list with a duplicate/empty entry or a change that hits an existing key; M: >=2 callers on one key with a batch of >=2 items or a pending batch; E: >=2 concurrent ops on one subject or an injected index failure"
	if run.Replay != "" {
		for _, c := range common.ReadReplay(run.Replay) {
			switch c["kind"] {
			case "A":
				if strings.HasPrefix(c["line"], "T ") {
					tagCase(c["line"])
				} else {
					applyCase(c["line"])
				}
			case "S":
				var sd, cl, rd uint64
				fmt.Sscan(c["seed"], &sd)
				fmt.Sscan(c["callers"], &cl)
				fmt.Sscan(c["rounds"], &rd)
				stressMerge(sd, int(cl), int(rd))
			case "P":
				if c["race"] == "1" {
					poolRaceCase()
				} else {
					poolSeqCase(strings.Fields(c["ops"]))
				}
			case "M":
				var mc MergeCase
				if err := json.Unmarshal([]byte(c["case"]), &mc); err != nil {
					t.Fatalf("bad replay case: %v", err)
				}
				mergeCase(t, &mc)
			case "E":
				var ec E2ECase
				if err := json.Unmarshal([]byte(c["case"]), &ec); err != nil {
					t.Fatalf("bad replay case: %v", err)
				}
				e2eCase(t, &ec)
			default:
				if l, ok := c["raw"]; ok {
					applyCase(l)
				}
			}
		}
		return
	}
	r := run.Rand
	na := run.Scale(2000, 800000)
	ra := r.Fork()
	applyFixed()
	for i := 0; i < na; i++ {
		applyCase(genApplyLine(ra))
	}
	for i := 0; i < run.Scale(100, 5000); i++ {
		tagCase(genTagLine(ra))
	}
	nm := run.Scale(150, 120000)
	rm := r.Fork()
	for i := 0; i < nm; i++ {
		mergeCase(t, genMerge(rm, run.Thorough()))
	}
	// every schedule of 2 callers (3 in the thorough tier) with at most one (two) failures
	nx := exploreMerge(t, 2, 2, 100000) + exploreMerge(t, 3, 1, 100000)
	if run.Thorough() {
		nx += exploreMerge(t, 3, 3, 800000) + exploreMerge(t, 4, 2, 400000) + exploreMerge(t, 5, 1, 400000)
	}
	run.Extra["merge_schedules_enumerated"] = nx
	// free-running stress of the real Merge/Pool (lock-region interleavings under the Go scheduler)
	rs := r.Fork()
	for i := 0; i < run.Scale(30, 600); i++ {
		stressMerge(rs.U64(), 2+rs.Intn(7), 1+rs.Intn(20))
	}
	// Pool.Get / release against the reference count of the model, with a forced release-vs-Get race
	poolStream(r.Fork())
	// every release order of the HTTP exchanges of 2 (thorough: 3) concurrent operations
	// on one subject with a pre-existing referrer, with at most one injected index failure
	ex := 0
	for _, skip := range []bool{false, true} {
		for _, kinds := range [][]string{{"push", "push"}, {"push", "delete"}, {"delete", "delete"}, {"repush", "delete"}} {
			ex += exploreE2E(t, kinds, skip, 1, run.Scale(400, 20000))
		}
		if run.Thorough() {
			for _, kinds := range [][]string{{"push", "push", "delete"}, {"push", "delete", "delete"}, {"push", "push", "push"}} {
				ex += exploreE2E(t, kinds, skip, 1, 60000)
			}
		}
	}
	run.Extra["e2e_schedules_enumerated"] = ex
	ne := run.Scale(120, 120000)
	re := r.Fork()
	for i := 0; i < ne; i++ {
		e2eCase(t, genE2E(re, run.Thorough()))
	}
	// coverage floors: a stream that produced nothing is a broken check, not a pass
	floors := map[string]int{"A/apply/": 1000, "A/remove-empty": 50, "A/filter": 50, "T/tag": 50, "K/caps": 5, "M/callers=": 100, "S/stress": 20, "P/sequential": 40, "P/race-forced": 2,
		"E/ops=": 100, "X/projected": 100, "Y/liveness": 80, "L/listing": 100, "D/decoration": 50, "E/same-manifest-overlap": 5,
		"E/fault/idx-": 20, "E/outcome=idxdel": 3, "E/outcome=err": 10, "E/skipgc": 10, "E/subjects=2": 5, "E/subjects=3": 5,
		"E/fault/idx-put/lost": 30, "E/fault/idx-del/lost": 30, "E/fault/man-put/lost": 10, "E/fault/man-del/lost": 10} // lost responses are model events (EPutLost): the projected lines are judged
	if run.Thorough() {
		floors["E/shared-index-drop"] = 20
		floors["E/fault/man-"] = 20
		floors["E/fault/idx-put/lost"] = 200
		floors["E/fault/idx-del/lost"] = 200
		floors["E/fault/idx-del/404"] = 20
	}
	for prefix, min := range floors {
		n := 0
		for k, v := range run.Dist {
			if strings.HasPrefix(k, prefix) {
				n += v
			}
		}
		if n < min {
			t.Errorf("coverage floor: %q produced %d cases (< %d)", prefix, n, min)
		}
	}
	if nx < 50 || ex < 100 {
		t.Errorf("coverage floor: %d merge schedules, %d end-to-end schedules enumerated", nx, ex)
	}
}

func e2eCase(t *testing.T, c *E2ECase) {
	id := run.NewID()
	onDeadlock = func(c *E2ECase, res *E2EResult) {
		rc := c.clone()
		rc.Decisions = res.Decisions
		run.Case(id, "E deadlock", "E deadlock")
		run.OracleFail(id, "deadlock", fmt.Sprintf("operations blocked for ever with no HTTP exchange pending after %d events", len(res.Events)), map[string]any{"kind": "E", "case": rc})
		run.Finish()
		os.Exit(0)
	}
	res := runE2E(t, c)
	fs := checkE2E(c, res)
	nops, nfail := 0, 0
	for _, rd := range c.Rounds {
		nops += len(rd)
	}
	for _, e := range res.Events {
		if e.Fail {
			nfail++
		}
	}
	run.Count(fmt.Sprintf("E/ops=%d", nops))
	run.Count(fmt.Sprintf("E/subjects=%d", c.NSubjects))
	run.Count(fmt.Sprintf("E/faults=%d", nfail))
	if c.SkipGC {
		run.Count("E/skipgc")
	}
	for _, rd := range c.Rounds {
		seen := map[int]bool{}
		for _, o := range rd {
			if seen[o.Man] {
				run.Count("E/same-manifest-overlap")
			}
			seen[o.Man] = true
		}
	}
	for _, e := range res.Events {
		if len(e.Dropped) > 0 {
			run.Count("E/shared-index-drop")
		}
		if e.Fail {
			k := e.Kind
			if k == "" {
				k = fmt.Sprint(e.Status)
			}
			run.Count("E/fault/" + e.Class + "/" + k)
		}
	}
	for _, o := range res.Ops {
		run.Count("E/outcome=" + o.Outcome)
	}
	conc := false
	for _, rd := range c.Rounds {
		per := map[int]int{}
		for _, o := range rd {
			per[c.Mans[o.Man].Subject]++
			if per[c.Mans[o.Man].Subject] >= 2 {
				conc = true
			}
		}
	}
	rc := c.clone()
	rc.Decisions = res.Decisions
	if conc || nfail > 0 {
		js, _ := json.Marshal(rc)
		run.Nontrivial("E " + string(js))
		if nfail > 0 && conc {
			run.Sample(map[string]any{"kind": "E", "ops": nops, "events": len(res.Events), "faults": nfail, "index": res.IndexTagged})
		}
	}
	run.Case(id, "E "+fmt.Sprint(len(res.Events)), "E "+fmt.Sprint(len(res.Events)))
	// correspondence: the exchanges on each referrers tag, as released by the gate,
	// are a schedule of the Merge transition system of that tag (X line); the model
	// must accept it and predict every caller's result and the final index
	if !res.Deadlock {
		// D lines: artifact type that indexReferrersForPush stored for a manifest pushed in this run
		for s := 0; s < c.NSubjects; s++ {
			for _, it := range res.Listings[s].Items {
				if it.Man < 0 {
					continue
				}
				pushed := false
				for _, ops := range c.Rounds {
					for _, o := range ops {
						if o.Man == it.Man && o.Kind == "push" && res.Ops[o.ID].Outcome != "err" {
							pushed = true
						}
					}
				}
				if !pushed {
					continue
				}
				m := c.Mans[it.Man]
				cfg := 0
				if m.Kind == "image" {
					cfg = typeID(m.ConfigMT)
				}
				run.Count("D/decoration")
				run.Case(run.NewID(), fmt.Sprintf("D %s %d %d", m.Kind, typeID(m.ArtifactType), cfg), fmt.Sprintf("D %d", typeID(it.ArtifactType)))
			}
		}
		// L lines: Referrers() through the tag schema = the model's list_referrers of the final index
		for s := 0; s < c.NSubjects; s++ {
			ents := "none"
			if res.IndexTagged[s] != nil {
				var es []string
				for i, k := range res.IndexTagged[s] {
					key := k + 1
					if k == -1 {
						key = 0
					} else if k < 0 {
						key = 999
					}
					es = append(es, fmt.Sprintf("%d:%d:0", key, typeID(res.IndexArts[s][i])))
				}
				ents = "-"
				if len(es) > 0 {
					ents = strings.Join(es, ",")
				}
			}
			keysOfItems := func(l Listing) string {
				var ks []string
				for _, it := range l.Items {
					switch {
					case it.Digest == "":
						ks = append(ks, "0")
					case it.Man < 0:
						ks = append(ks, "999")
					default:
						ks = append(ks, fmt.Sprint(it.Man+1))
					}
				}
				if len(ks) == 0 {
					return "-"
				}
				return strings.Join(ks, ",")
			}
			if res.Listings[s].Err == "" {
				run.Count("L/listing")
				run.Case(run.NewID(), fmt.Sprintf("L 0 %s", ents), "L "+keysOfItems(res.Listings[s]))
			}
			if res.FilterType != "" && res.Filtered[s].Err == "" {
				run.Case(run.NewID(), fmt.Sprintf("L %d %s", typeID(res.FilterType), ents), "L "+keysOfItems(res.Filtered[s]))
			}
		}
		for s := 0; s < c.NSubjects; s++ {
			if in, obs, ok := yLine(c, res, s); ok {
				run.Count("Y/liveness")
				run.Case(run.NewID(), in, obs)
			}
		}
		for s := 0; s < c.NSubjects; s++ {
			if in, obs, ok := xLine(c, res, s); ok {
				run.Count("X/projected")
				run.Case(run.NewID(), in, obs)
				run.TracesAgainstImpl++
			}
		}
	}
	seen := map[string]bool{}
	for _, f := range fs {
		if seen[f.sig] {
			continue
		}
		seen[f.sig] = true
		run.OracleFail(id, f.sig, f.msg, map[string]any{"kind": "E", "case": rc})
	}
}

func (c *E2ECase) clone() *E2ECase {
	js, _ := json.Marshal(c)
	var d E2ECase
	json.Unmarshal(js, &d)
	return &d
}

// xLine projects an end-to-end run onto one subject: model input and the
// implementation's observable (results of the callers, final index).
func xLine(c *E2ECase, res *E2EResult, s int) (string, string, bool) {
	local := map[int]int{}
	notEntered := map[int]bool{}
	var specs, rs []string
	for _, ops := range c.Rounds {
		for _, o := range ops {
			if c.Mans[o.Man].Subject != s {
				continue
			}
			local[o.ID] = len(specs)
			sign := "+"
			if o.Kind == "delete" {
				sign = "~"
			}
			// a Delete that got past the index update (its manifest DELETE was issued) and then
			// failed reports the manifest-level error; the result of its index update is not
			// observable any more: marked (payload 9), printed as "*" by both sides
			hidden := false
			if o.Kind == "delete" && res.Ops[o.ID].Outcome == "err" {
				for _, e := range res.Events {
					if e.Op == o.ID && e.Class == "man-del" {
						hidden = true
					}
				}
			}
			// an operation whose own manifest exchange failed (e.g. Delete of a manifest that a
			// concurrent Delete has just removed: 404 on the fetch) never reaches the index update
			for _, e := range res.Events {
				if e.Op == o.ID && (e.Class == "man-get" || e.Class == "man-put") && e.Status >= 400 {
					hidden = true
					notEntered[o.ID] = true
				}
			}
			if hidden {
				specs = append(specs, fmt.Sprintf("%s%d:0:9", sign, o.Man+1))
				rs = append(rs, fmt.Sprintf("%d=*", len(rs)))
			} else {
				specs = append(specs, fmt.Sprintf("%s%d:0:0", sign, o.Man+1))
				rs = append(rs, fmt.Sprintf("%d=%s", len(rs), res.Ops[o.ID].Outcome))
			}
		}
	}
	if len(specs) == 0 {
		return "", "", false
	}
	keyList := func(l []int) string {
		if l == nil {
			return "none"
		}
		if len(l) == 0 {
			return "-"
		}
		out := make([]string, len(l))
		for i, k := range l {
			switch {
			case k == -1:
				out[i] = "0"
			case k < 0:
				out[i] = "999"
			default:
				out[i] = fmt.Sprint(k + 1)
			}
		}
		return strings.Join(out, ",")
	}
	var evs, puts []string
	for _, e := range res.Events {
		t, ok := local[e.Op]
		if !ok {
			// an exchange of another subject's operation that took this subject's tag away
			for _, d := range e.Dropped {
				if d == s {
					evs = append(evs, "E")
				}
			}
			continue
		}
		if e.Class == "idx-put" {
			b := keyList(append([]int{}, e.PutList...))
			if b == "-" {
				b = "e" // an empty index body (distinct from "no PUT at all")
			}
			puts = append(puts, b)
		}
		f := 0
		if e.Fail {
			f = 1
		}
		if e.Kind == "lost" {
			f = 2 // the index PUT took effect but was answered 500: EPutLost of the model (callers get the plain error, the index changed, the old index stays)
		}
		switch e.Class {
		case "man-put", "man-get":
			if !notEntered[e.Op] {
				evs = append(evs, fmt.Sprintf("G%d", t))
			}
		case "idx-get":
			evs = append(evs, fmt.Sprintf("P%d:%d", t, f))
		case "idx-put":
			evs = append(evs, fmt.Sprintf("U%d:%d", t, f))
		case "idx-del":
			evs = append(evs, fmt.Sprintf("D%d:%d", t, f))
		}
	}
	sg := "0"
	if c.SkipGC {
		sg = "1"
	}
	dg := fmt.Sprint(res.DanglingOf[s])
	// an index without a single referrer (empty, or zero descriptors only) may be ONE manifest
	// shared with other tags: whether it dangles is not a per-tag notion
	sharedIdx := false
	if c.PreIndex[s] != nil {
		sharedIdx = true
		for _, k := range c.PreIndex[s] {
			if k >= 0 {
				sharedIdx = false
			}
		}
	}
	for _, pb := range puts {
		if pb == "e" {
			sharedIdx = true
		}
	}
	for _, e := range evs {
		if e == "E" {
			sharedIdx = true
		}
	}
	for _, e := range res.Events {
		if _, ok := local[e.Op]; ok && e.Class == "idx-del" && e.Status == 404 {
			sharedIdx = true
		}
	}
	if c.DistinctPre || sharedIdx {
		// the annotated pre-existing index never equals a generated one (the model compares
		// contents): the count of dangling indexes is not compared
		sg += "d"
		dg = "*"
	}
	// the last token carries the whole end-to-end case (with the recorded schedule) so that a
	// mismatch on this projected line can be re-run under the oracle (bin/check --replay)
	rc := c.clone()
	rc.Decisions = res.Decisions
	js, _ := json.Marshal(rc)
	in := fmt.Sprintf("X %s %s %s %s J%s", sg, keyList(c.PreIndex[s]), strings.Join(specs, ","), strings.Join(evs, " "), hex.EncodeToString(js))
	// the body of every index PUT (the batch applied to the index that was fetched) is observable too
	ps := "-"
	if len(puts) > 0 {
		ps = strings.Join(puts, ";")
	}
	obs := fmt.Sprintf("ACC R %s I %s U %s G %s", strings.Join(rs, ","), keyList(res.IndexTagged[s]), ps, dg)
	return in, obs, true
}

// exploreE2E enumerates the release orders (and single index failures) of one round
// of concurrent operations on one subject that already has two live referrers.
func exploreE2E(t *testing.T, kinds []string, skipGC bool, maxFaults, limit int) int {
	base := &E2ECase{Seed: 1, SkipGC: skipGC, NSubjects: 1, MaxFaults: maxFaults, Explore: true}
	base.Mans = []Man{{Subject: 0, Kind: "image", ConfigMT: cfgTypes[0], Salt: 0}, {Subject: 0, Kind: "artifact", ArtifactType: artTypes[1], Salt: 1, SubjVar: 1}}
	base.PreLive = []int{0, 1}
	base.PreIndex = [][]int{{0, 1, 0}}
	var ops []Op
	del := 0
	for i, k := range kinds {
		if k == "repush" {
			// the live, listed manifest 0 is pushed again (concurrently with whatever else names it)
			ops = append(ops, Op{ID: i, Kind: "push", Man: 0})
		} else if k == "delete" && del < 2 {
			ops = append(ops, Op{ID: i, Kind: "delete", Man: del})
			del++
		} else {
			// the pushed referrers name the subject with different descriptors (same digest)
			base.Mans = append(base.Mans, Man{Subject: 0, Kind: "image", ConfigMT: cfgTypes[1], Ann: map[string]string{"k": fmt.Sprint(i)}, Salt: 10 + i, SubjVar: i % 4})
			ops = append(ops, Op{ID: i, Kind: "push", Man: len(base.Mans) - 1})
		}
	}
	base.Rounds = [][]Op{ops}
	var choices []int
	runs := 0
	for runs < limit {
		c := base.clone()
		c.Explore, c.Choices = true, choices
		e2eCase(t, c)
		runs++
		cur := make([]int, len(c.optCounts))
		copy(cur, choices)
		i := len(cur) - 1
		for i >= 0 && cur[i]+1 >= c.optCounts[i] {
			i--
		}
		if i < 0 {
			break
		}
		cur[i]++
		choices = cur[:i+1]
	}
	return runs
}

// typeID interns a media / artifact type ("" = 0).
func typeID(t string) int {
	if t == "" {
		return 0
	}
	all := append(append([]string{}, artTypes[1:]...), cfgTypes...)
	for i, x := range all {
		if x == t {
			return i + 1
		}
	}
	return 99
}

// yLine projects an end-to-end run onto one subject WITH the manifest exchanges: the model
// (Model/Live.v, operations on one manifest do not overlap) predicts which referrer manifests
// are live; compared with the registry store.  Manifests touched by a failed operation (Z) are
// not judged; runs with same-manifest overlap are not projected.
func yLine(c *E2ECase, res *E2EResult, s int) (string, string, bool) {
	local := map[int]int{}
	var specs []string
	z := map[int]bool{}
	for _, ops := range c.Rounds {
		seen := map[int]bool{}
		for _, o := range ops {
			if c.Mans[o.Man].Subject != s {
				continue
			}
			if seen[o.Man] {
				return "", "", false
			}
			seen[o.Man] = true
			local[o.ID] = len(specs)
			sign := "+"
			if o.Kind == "delete" {
				sign = "~"
			}
			specs = append(specs, fmt.Sprintf("%s%d:0:0", sign, o.Man+1))
			if res.Ops[o.ID].Outcome == "err" {
				// ... except a Delete whose final manifest DELETE took effect and was answered with
				// an error: the model (LDel) says the manifest is gone and unlisted - judged
				lostDel := false
				for _, e := range res.Events {
					if e.Op == o.ID && e.Class == "man-del" && e.Kind == "lost" {
						lostDel = true
					}
				}
				if !lostDel {
					z[o.Man+1] = true
				}
			}
		}
	}
	if len(specs) == 0 {
		return "", "", false
	}
	entered := map[int]bool{}
	var evs []string
	for _, e := range res.Events {
		t, ok := local[e.Op]
		if !ok {
			for _, d := range e.Dropped {
				if d == s {
					evs = append(evs, "E")
				}
			}
			continue
		}
		f := 0
		if e.Fail {
			f = 1
		}
		if e.Kind == "lost" {
			f = 2 // the index PUT took effect but was answered 500: EPutLost of the model
		}
		o := opByID(c, e.Op)
		switch e.Class {
		case "man-put", "man-get":
			if e.Kind == "lost" {
				// the manifest PUT took effect, the push returned the error: LPutLost of the model
				evs = append(evs, fmt.Sprintf("Q%d", t))
				z[o.Man+1] = true
			} else if e.Status < 400 && !e.Fail {
				entered[e.Op] = true
				evs = append(evs, fmt.Sprintf("G%d", t))
			} else {
				z[o.Man+1] = true
			}
		case "idx-get":
			evs = append(evs, fmt.Sprintf("P%d:%d", t, f))
		case "idx-put":
			evs = append(evs, fmt.Sprintf("U%d:%d", t, f))
		case "idx-del":
			evs = append(evs, fmt.Sprintf("D%d:%d", t, f))
		case "man-del":
			if (e.Status < 400 && !e.Fail) || e.Kind == "lost" {
				// answered 202, or took effect and answered with an error: LDel of the model
				evs = append(evs, fmt.Sprintf("M%d", t))
			} else {
				evs = append(evs, fmt.Sprintf("N%d", t)) // the manifest DELETE failed: operation over
				z[o.Man+1] = true
			}
		}
	}
	keyList := func(l []int) string {
		if l == nil {
			return "none"
		}
		if len(l) == 0 {
			return "-"
		}
		out := make([]string, len(l))
		for i, k := range l {
			if k == -1 {
				out[i] = "0"
			} else {
				out[i] = fmt.Sprint(k + 1)
			}
		}
		return strings.Join(out, ",")
	}
	intList := func(m map[int]bool) string {
		var ks []int
		for k := range m {
			ks = append(ks, k)
		}
		sort.Ints(ks)
		if len(ks) == 0 {
			return "-"
		}
		out := make([]string, len(ks))
		for i, k := range ks {
			out[i] = fmt.Sprint(k)
		}
		return strings.Join(out, ",")
	}
	live0 := map[int]bool{}
	for _, k := range c.PreLive {
		if c.Mans[k].Subject == s {
			live0[k+1] = true
		}
	}
	liveNow := map[int]bool{}
	for k, m := range c.Mans {
		if m.Subject == s && res.Live[k] && !z[k+1] {
			liveNow[k+1] = true
		}
	}
	sg := 0
	if c.SkipGC {
		sg = 1
	}
	in := fmt.Sprintf("Y %d %s %s %s %s %s", sg, keyList(c.PreIndex[s]), intList(live0), strings.Join(specs, ","), intList(z), strings.Join(evs, " "))
	return in, fmt.Sprintf("Y L %s B 0", intList(liveNow)), true
}
