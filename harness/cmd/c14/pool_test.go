//go:build go1.25

package c14

// P: syncutil.Pool as updateReferrersIndex uses it (Get / release function), against the
// reference count of the model (pool_get / pool_put, Model/Merge.v).  Observable: for every Get
// in LOCK ORDER, whether the returned Merge is the one the current holders have (S), a fresh one
// while nobody holds the entry (N) - or a second entry although somebody holds one (X: two Merge
// objects for one referrers tag, the serialisation of the index updates is gone).
//
// Sequential sequences, and one FORCED race: a release that has to wait for the pool lock while
// a Get of the same key overtakes it (the pool lock is held by a Get of another key whose New
// blocks; goroutine states are read from runtime.Stack, no sleeping).

import (
	"fmt"
	"reflect"
	"runtime"
	"strings"
	"sync/atomic"
	"time"
	"unsafe"

	"oras.land/oras-go/v2/verifhooks"
	"verifharness/common"
)

type poolHold struct {
	ident any
	done  func()
}

func poolLetter(held map[string]poolHold, ident any) string {
	if len(held) == 0 {
		return "N"
	}
	for _, h := range held {
		if h.ident != ident {
			return "X"
		}
	}
	return "S"
}

func poolReport(id string, ops []string, out string, forced bool) {
	line := "P " + strings.Join(ops, " ")
	run.Case(id, line, "P "+out)
	if strings.Contains(out, "X") {
		rp := map[string]any{"kind": "P", "ops": strings.Join(ops, " ")}
		if forced {
			rp["race"] = "1"
		}
		run.OracleFail(id, "pool-split", fmt.Sprintf("Pool.Get returned a second Merge for a key whose entry is still held (two Merge objects for one referrers tag): ops in lock order %v, per Get %s", ops, out), rp)
	}
}

// poolSeqCase runs Get / release operations (g<i> / r<i>) one after the other.
func poolSeqCase(ops []string) {
	id := run.NewID()
	var pool verifhooks.MergePool
	held := map[string]poolHold{}
	var out strings.Builder
	for _, op := range ops {
		th := op[1:]
		if op[0] == 'g' {
			ident, done := pool.Get("tag")
			out.WriteString(poolLetter(held, ident))
			held[th] = poolHold{ident, done}
		} else if h, ok := held[th]; ok {
			h.done()
			delete(held, th)
		}
	}
	for _, h := range held {
		h.done()
	}
	run.Count("P/sequential")
	poolReport(id, ops, out.String(), false)
}

func genPoolOps(r *common.Rand) []string {
	n := 2 + r.Intn(10)
	var ops []string
	var held []int
	next := 0
	for i := 0; i < n; i++ {
		if len(held) > 0 && r.Intn(2) == 0 {
			k := r.Intn(len(held))
			ops = append(ops, fmt.Sprintf("r%d", held[k]))
			held = append(held[:k], held[k+1:]...)
		} else {
			ops = append(ops, fmt.Sprintf("g%d", next))
			held = append(held, next)
			next++
		}
	}
	return ops
}

// setPoolNew sets the (exported, documented) New field of the wrapped syncutil.Pool: the value
// it returns is the zero Merge that Get would have created anyway.
func setPoolNew(mp *verifhooks.MergePool, f func()) (ok bool) {
	defer func() {
		if recover() != nil {
			ok = false
		}
	}()
	v := reflect.ValueOf(mp).Elem()
	if v.Kind() != reflect.Struct || v.NumField() != 1 {
		return false
	}
	nf := v.Field(0).FieldByName("New")
	if !nf.IsValid() || nf.Kind() != reflect.Func || nf.Type().NumIn() != 0 || nf.Type().NumOut() != 1 {
		return false
	}
	zero := reflect.Zero(nf.Type().Out(0))
	fn := reflect.MakeFunc(nf.Type(), func([]reflect.Value) []reflect.Value {
		f()
		return []reflect.Value{zero}
	})
	reflect.NewAt(nf.Type(), unsafe.Pointer(nf.UnsafeAddr())).Elem().Set(fn)
	return true
}

// blockedOnPoolLock counts the goroutines waiting for a mutex inside syncutil.Pool.
func blockedOnPoolLock() int {
	buf := make([]byte, 1<<20)
	n := runtime.Stack(buf, true)
	cnt := 0
	for _, g := range strings.Split(string(buf[:n]), "\n\n") {
		hdr, _, _ := strings.Cut(g, "\n")
		if strings.Contains(hdr, "sync.Mutex.Lock") && strings.Contains(g, "syncutil.(*Pool") {
			cnt++
		}
	}
	return cnt
}

func waitBlocked(n int) bool {
	deadline := time.Now().Add(5 * time.Second)
	for time.Now().Before(deadline) {
		if blockedOnPoolLock() >= n {
			return true
		}
		runtime.Gosched()
		time.Sleep(200 * time.Microsecond)
	}
	return false
}

// poolRaceCase: holder 0 releases while caller 1 gets the same key; both wait for the pool
// lock, the Get first.  Lock order g0 g1 r0 g2: callers 1 and 2 must share one Merge.
func poolRaceCase() bool {
	id := run.NewID()
	pool := &verifhooks.MergePool{}
	var armed int32
	gate := make(chan struct{})
	entered := make(chan struct{}, 1)
	if !setPoolNew(pool, func() {
		if atomic.CompareAndSwapInt32(&armed, 1, 2) {
			entered <- struct{}{}
			<-gate
		}
	}) {
		run.Count("P/race-unavailable")
		return false
	}
	ident0, done0 := pool.Get("tag")
	atomic.StoreInt32(&armed, 1)
	bDone := make(chan func(), 1)
	go func() { _, d := pool.Get("other"); bDone <- d }()
	select {
	case <-entered:
	case <-time.After(5 * time.Second):
		run.Count("P/race-unavailable")
		close(gate)
		return false
	}
	type got struct {
		ident any
		done  func()
	}
	c1 := make(chan got, 1)
	go func() { i, d := pool.Get("tag"); c1 <- got{i, d} }()
	ok := waitBlocked(1)
	r0 := make(chan struct{})
	go func() { done0(); close(r0) }()
	ok = waitBlocked(2) && ok
	close(gate)
	var g1 got
	select {
	case g1 = <-c1:
	case <-time.After(10 * time.Second):
		run.Case(id, "S hang", "S hang")
		run.OracleFail(id, "merge-deadlock", "Pool.Get did not return within 10 s after the pool lock was released", map[string]any{"kind": "P", "race": "1"})
		return false
	}
	select {
	case <-r0:
	case <-time.After(10 * time.Second):
		run.Case(id, "S hang", "S hang")
		run.OracleFail(id, "merge-deadlock", "the release function of Pool.Get did not return within 10 s after the pool lock was released", map[string]any{"kind": "P", "race": "1"})
		return false
	}
	(<-bDone)()
	forced := ok && g1.ident == ident0 // the Get overtook the release
	ident2, done2 := pool.Get("tag")
	held := map[string]poolHold{"1": {g1.ident, g1.done}}
	l2 := poolLetter(held, ident2)
	g1.done()
	done2()
	if forced {
		run.Count("P/race-forced")
		poolReport(id, []string{"g0", "g1", "r0", "g2"}, "NS"+l2, true)
	} else {
		// the release went first: the entry was removed, caller 1 created a fresh one
		run.Count("P/race-not-forced")
		poolReport(id, []string{"g0", "r0", "g1", "g2"}, "NN"+l2, true)
	}
	return forced
}

func poolStream(r *common.Rand) {
	for _, ops := range [][]string{{"g0", "g1", "r0", "g2", "r1", "r2", "g3"}, {"g0", "r0", "g1"}, {"g0", "g1", "g2", "r1", "r0", "g3", "r2", "r3", "g4"}} {
		poolSeqCase(ops)
	}
	for i := 0; i < run.Scale(40, 2000); i++ {
		poolSeqCase(genPoolOps(r))
	}
	forced := 0
	for i := 0; i < run.Scale(12, 200) && forced < run.Scale(3, 50); i++ {
		if poolRaceCase() {
			forced++
		}
	}
}
