//go:build go1.25

package c14

// A: applyReferrerChanges / removeEmptyDescriptors / filterReferrers.
//
// Line formats (model input):
//	A <old> <changes>     old = "-" | k:a:p,...     changes = "-" | +k:a:p,~k:a:p,...
//	R <hint> <list>
//	F <art> <list>
// k = interned descriptor key (media type x digest x size; 0 = all zero),
// a = interned artifact type (0 = ""), p = interned annotations (0 = none).

import (
	"fmt"
	"strconv"
	"strings"

	"github.com/opencontainers/go-digest"
	ocispec "github.com/opencontainers/image-spec/specs-go/v1"
	"oras.land/oras-go/v2/registry/remote"
	"verifharness/common"
)

type tdesc struct{ k, a, p int }

var (
	dA = digest.FromString("a")
	dB = digest.FromString("b")
	dC = digest.FromString("c")
)

// key table: distinct (media type, digest, size) triples that overlap pairwise
// in one or two components; key 0 is the all-zero triple.
var keyTable = []ocispec.Descriptor{
	{},
	{MediaType: ocispec.MediaTypeImageManifest, Digest: dA, Size: 10},
	{MediaType: ocispec.MediaTypeImageManifest, Digest: dB, Size: 10},
	{MediaType: mtArtifact, Digest: dA, Size: 10},
	{MediaType: ocispec.MediaTypeImageManifest, Digest: dA, Size: 11},
	{MediaType: ocispec.MediaTypeImageIndex, Digest: dC, Size: 7},
	{MediaType: "", Digest: dC, Size: 0},
	{MediaType: "", Digest: "", Size: 5},
	{MediaType: ocispec.MediaTypeImageManifest, Digest: "", Size: 0},
	{MediaType: ocispec.MediaTypeImageIndex, Digest: dB, Size: 10},
}

func keyID(d ocispec.Descriptor) int {
	for i, k := range keyTable {
		if k.MediaType == d.MediaType && k.Digest == d.Digest && k.Size == d.Size {
			return i
		}
	}
	return -1
}

func toOCI(t tdesc) ocispec.Descriptor {
	d := keyTable[t.k]
	if t.a != 0 {
		d.ArtifactType = fmt.Sprintf("application/vnd.t%d", t.a)
	}
	if t.p != 0 {
		d.Annotations = map[string]string{"p": strconv.Itoa(t.p)}
	}
	return d
}

func fromOCI(d ocispec.Descriptor) tdesc {
	t := tdesc{k: keyID(d)}
	if d.ArtifactType != "" {
		fmt.Sscanf(d.ArtifactType, "application/vnd.t%d", &t.a)
	}
	if v, ok := d.Annotations["p"]; ok {
		t.p, _ = strconv.Atoi(v)
	}
	return t
}

func (t tdesc) String() string { return fmt.Sprintf("%d:%d:%d", t.k, t.a, t.p) }

func fmtList(l []tdesc) string {
	if len(l) == 0 {
		return "-"
	}
	s := make([]string, len(l))
	for i, t := range l {
		s[i] = t.String()
	}
	return strings.Join(s, ",")
}

func parseT(s string) tdesc {
	var t tdesc
	fmt.Sscanf(s, "%d:%d:%d", &t.k, &t.a, &t.p)
	return t
}

func parseList(s string) []tdesc {
	if s == "-" || s == "" {
		return nil
	}
	var out []tdesc
	for _, x := range strings.Split(s, ",") {
		out = append(out, parseT(x))
	}
	return out
}

type tchange struct {
	add bool
	d   tdesc
}

func parseChanges(s string) []tchange {
	if s == "-" || s == "" {
		return nil
	}
	var out []tchange
	for _, x := range strings.Split(s, ",") {
		out = append(out, tchange{x[0] == '+', parseT(x[1:])})
	}
	return out
}

func fmtChanges(cs []tchange) string {
	if len(cs) == 0 {
		return "-"
	}
	s := make([]string, len(cs))
	for i, c := range cs {
		if c.add {
			s[i] = "+" + c.d.String()
		} else {
			s[i] = "~" + c.d.String()
		}
	}
	return strings.Join(s, ",")
}

func genT(r *common.Rand, nk int, emptyOK bool) tdesc {
	t := tdesc{k: 1 + r.Intn(nk)}
	if emptyOK && r.Chance(1, 7) {
		t.k = 0
	}
	if r.Chance(1, 2) {
		t.a = r.Intn(3)
	}
	if r.Chance(1, 3) {
		t.p = r.Intn(3)
	}
	return t
}

func genApplyLine(r *common.Rand) string {
	nk := 2 + r.Intn(len(keyTable)-2)
	switch r.Intn(10) {
	case 0:
		n := r.Intn(7)
		l := make([]tdesc, n)
		ne := 0
		for i := range l {
			l[i] = genT(r, nk, true)
			if l[i].k != 0 {
				ne++
			}
		}
		hint := ne
		if r.Chance(1, 3) {
			hint = r.Intn(n + 2)
		}
		return fmt.Sprintf("R %d %s", hint, fmtList(l))
	case 1:
		n := r.Intn(7)
		l := make([]tdesc, n)
		for i := range l {
			l[i] = genT(r, nk, true)
		}
		return fmt.Sprintf("F %d %s", r.Intn(3), fmtList(l))
	}
	n := r.Intn(7)
	old := make([]tdesc, 0, n)
	dirty := r.Chance(1, 3)
	for i := 0; i < n; i++ {
		t := genT(r, nk, dirty)
		if !dirty {
			dup := false
			for _, o := range old {
				if o.k == t.k {
					dup = true
				}
			}
			if dup {
				continue
			}
		}
		old = append(old, t)
	}
	m := r.Intn(6)
	cs := make([]tchange, m)
	for i := range cs {
		cs[i] = tchange{r.Chance(3, 5), genT(r, nk, r.Chance(1, 20))}
		if len(old) > 0 && r.Chance(1, 3) {
			cs[i].d = old[r.Intn(len(old))]
		}
	}
	return fmt.Sprintf("A %s %s", fmtList(old), fmtChanges(cs))
}

func applyFixed() {
	for _, l := range []string{
		"A - -", "A 1:0:0 -", "A 1:0:0 ~1:0:0", "A 1:0:0 ~1:0:0,+1:0:0", "A 1:0:0,2:0:0 ~1:0:0,+1:1:1",
		"A 1:0:0,1:0:0 -", "A 0:0:0 -", "A 0:1:1,1:0:0 +2:0:0", "A 1:0:0,2:0:0,3:0:0 ~2:0:0,+4:0:0,~1:0:0,+2:0:0",
		"A 1:0:0 +0:0:0", "A 1:0:0 +0:0:0,~1:0:0", "A - +0:0:0", "A 1:0:0,2:0:0 ~1:0:0,+3:0:0",
		"R 0 -", "R 0 0:0:0,1:0:0", "R 1 1:0:0,2:0:0", "R 5 1:0:0,0:0:0,2:0:0", "F 0 1:1:0,2:2:0", "F 1 1:1:0,2:2:0,3:1:1",
	} {
		applyCase(l)
	}
}

func applyCase(line string) {
	id := run.NewID()
	f := strings.Fields(line)
	if len(f) != 3 {
		return
	}
	switch f[0] {
	case "R":
		hint, _ := strconv.Atoi(f[1])
		l := parseList(f[2])
		in := make([]ocispec.Descriptor, len(l))
		ne := 0
		for i, t := range l {
			in[i] = toOCI(t)
			if t.k != 0 {
				ne++
			}
		}
		got := remote.VerifRemoveEmptyDescriptors(in, hint)
		out := make([]tdesc, len(got))
		for i, d := range got {
			out[i] = fromOCI(d)
		}
		run.Count("A/remove-empty")
		run.Case(id, line, "L "+fmtList(out))
		if hint >= ne {
			// oracle: with a hint that is not too small the result is exactly the non-empty entries in order
			var want []tdesc
			for _, t := range l {
				if t.k != 0 {
					want = append(want, t)
				}
			}
			if fmtList(want) != fmtList(out) {
				run.OracleFail(id, "remove-empty", fmt.Sprintf("removeEmptyDescriptors(%s, %d) = %s", f[2], hint, fmtList(out)), map[string]any{"kind": "A", "line": line})
			}
		}
		return
	case "F":
		a, _ := strconv.Atoi(f[1])
		l := parseList(f[2])
		in := make([]ocispec.Descriptor, len(l))
		for i, t := range l {
			in[i] = toOCI(t)
		}
		at := ""
		if a != 0 {
			at = fmt.Sprintf("application/vnd.t%d", a)
		}
		got := remote.VerifFilterReferrers(in, at)
		out := make([]tdesc, len(got))
		for i, d := range got {
			out[i] = fromOCI(d)
		}
		run.Count("A/filter")
		run.Case(id, line, "L "+fmtList(out))
		var want []tdesc
		for _, t := range l {
			if a == 0 || t.a == a {
				want = append(want, t)
			}
		}
		if fmtList(want) != fmtList(out) {
			run.OracleFail(id, "filter-referrers", fmt.Sprintf("filterReferrers(%s, %d) = %s", f[2], a, fmtList(out)), map[string]any{"kind": "A", "line": line})
		}
		return
	case "A":
	default:
		return
	}
	old := parseList(f[1])
	cs := parseChanges(f[2])
	in := make([]ocispec.Descriptor, len(old))
	for i, t := range old {
		in[i] = toOCI(t)
	}
	chs := make([]remote.VerifReferrerChange, len(cs))
	for i, c := range cs {
		chs[i] = remote.VerifReferrerChange{Referrer: toOCI(c.d), Add: c.add}
	}
	got, err := remote.VerifApplyReferrerChanges(in, chs)
	var obs string
	var out []tdesc
	switch {
	case err == remote.VerifErrNoReferrerUpdate:
		obs = "NOUPDATE"
	case err != nil:
		obs = "ERR"
	default:
		out = make([]tdesc, len(got))
		for i, d := range got {
			out[i] = fromOCI(d)
		}
		obs = "UPD " + fmtList(out)
	}
	// input must not have been modified
	for i, t := range old {
		if fromOCI(in[i]) != t {
			run.OracleFail(id, "apply-mutates-input", "applyReferrerChanges modified its referrers argument: "+line, map[string]any{"kind": "A", "line": line})
			break
		}
	}
	run.Case(id, line, obs)
	run.Count(fmt.Sprintf("A/apply/old=%d", len(old)))
	run.Count(fmt.Sprintf("A/apply/changes=%d", len(cs)))

	// ---- independent oracle: set semantics ----
	dirty := false
	type ent struct {
		t     tdesc
		alive bool
		orig  bool
	}
	var cur []*ent
	find := func(k int) *ent {
		for _, e := range cur {
			if e.alive && e.t.k == k {
				return e
			}
		}
		return nil
	}
	for _, t := range old {
		if t.k == 0 || find(t.k) != nil {
			dirty = true
			continue
		}
		cur = append(cur, &ent{t, true, true})
	}
	oldKeys := map[int]bool{}
	for _, e := range cur {
		oldKeys[e.t.k] = true
	}
	hit := false
	emptyChange := false
	for _, c := range cs {
		if c.d.k == 0 {
			emptyChange = true
		}
		e := find(c.d.k)
		if e != nil {
			hit = true
		}
		if c.add && e == nil {
			cur = append(cur, &ent{c.d, true, false})
		}
		if !c.add && e != nil {
			e.alive = false
		}
	}
	if dirty || hit {
		run.Nontrivial(line)
		if dirty && hit {
			run.Sample(map[string]any{"kind": "A", "line": line, "impl": obs})
		}
	}
	if emptyChange {
		run.Count("A/apply/empty-key-change")
		return // a change naming the zero descriptor is outside the property (pushed manifests have a media type)
	}
	var want []tdesc
	newKeys := map[int]bool{}
	for _, e := range cur {
		if e.alive {
			want = append(want, e.t)
			newKeys[e.t.k] = true
		}
	}
	same := !dirty && len(newKeys) == len(oldKeys)
	for k := range oldKeys {
		if !newKeys[k] {
			same = false
		}
	}
	rp := map[string]any{"kind": "A", "line": line}
	if same {
		run.Count("A/apply/noupdate")
		if obs != "NOUPDATE" {
			run.OracleFail(id, "apply-noupdate", fmt.Sprintf("nothing changes but applyReferrerChanges returned %s for %s", obs, line), rp)
		}
		return
	}
	if obs == "NOUPDATE" || obs == "ERR" {
		run.OracleFail(id, "apply-noupdate", fmt.Sprintf("the referrer set changes (or the old index has duplicates/empties) but applyReferrerChanges returned %s for %s", obs, line), rp)
		return
	}
	seen := map[int]bool{}
	for _, t := range out {
		if t.k == 0 {
			run.OracleFail(id, "apply-empty", "result contains an empty descriptor: "+line+" -> "+obs, rp)
			return
		}
		if seen[t.k] {
			run.OracleFail(id, "apply-dup", "result contains a duplicate: "+line+" -> "+obs, rp)
			return
		}
		seen[t.k] = true
	}
	if len(seen) != len(newKeys) {
		run.OracleFail(id, "apply-set", fmt.Sprintf("result set differs: %s -> %s, want %s", line, obs, fmtList(want)), rp)
		return
	}
	for k := range newKeys {
		if !seen[k] {
			run.OracleFail(id, "apply-set", fmt.Sprintf("result set differs: %s -> %s, want %s", line, obs, fmtList(want)), rp)
			return
		}
	}
	if fmtList(out) != fmtList(want) {
		run.OracleFail(id, "apply-order", fmt.Sprintf("order/payload of the result differs: %s -> %s, want %s", line, obs, fmtList(want)), rp)
	}
}

// T: buildReferrersTag on subject descriptors that share or differ in digest, media
// type and size: the tag must depend on the digest only (class = index of the first
// descriptor with the same tag).
var tagDigests = []digest.Digest{dA, dB, dC, digest.NewDigestFromEncoded(digest.SHA512, strings.Repeat("ab", 64)), digest.NewDigestFromEncoded(digest.SHA512, strings.Repeat("cd", 64))}
var tagMTs = []string{"", ocispec.MediaTypeImageManifest, ocispec.MediaTypeImageIndex, "application/vnd.docker.distribution.manifest.v2+json"}

func genTagLine(r *common.Rand) string {
	n := 2 + r.Intn(5)
	s := make([]string, n)
	for i := range s {
		s[i] = fmt.Sprintf("%d:%d:%d", r.Intn(len(tagDigests)), r.Intn(len(tagMTs)), r.Intn(3)*7)
	}
	return "T " + strings.Join(s, ",")
}

func tagCase(line string) {
	id := run.NewID()
	f := strings.Fields(line)
	if len(f) != 2 {
		return
	}
	var tags []string
	var digs []int
	for _, x := range strings.Split(f[1], ",") {
		var d, m, z int
		fmt.Sscanf(x, "%d:%d:%d", &d, &m, &z)
		tg, err := remote.VerifBuildReferrersTag(ocispec.Descriptor{MediaType: tagMTs[m%len(tagMTs)], Digest: tagDigests[d%len(tagDigests)], Size: int64(z)})
		if err != nil {
			tg = "ERR:" + err.Error()
		}
		tags = append(tags, tg)
		digs = append(digs, d%len(tagDigests))
	}
	cls := make([]string, len(tags))
	for i, t := range tags {
		for j, u := range tags {
			if u == t {
				cls[i] = fmt.Sprint(j)
				break
			}
		}
	}
	run.Count("T/tag")
	run.Case(id, line, "T "+strings.Join(cls, ","))
	for i := range tags {
		for j := range tags {
			if (tags[i] == tags[j]) != (digs[i] == digs[j]) || strings.HasPrefix(tags[i], "ERR:") {
				run.OracleFail(id, "tag-not-by-digest", fmt.Sprintf("buildReferrersTag: descriptors %d and %d of %s give %q and %q", i, j, f[1], tags[i], tags[j]), map[string]any{"kind": "A", "line": line})
				return
			}
		}
	}
}
