//go:build go1.25

package c14

// S: free-running stress of the real syncutil.Merge / Pool (no synctest bubble, no gate):
// many goroutines call Pool.Get / Merge.Do / release concurrently under the Go scheduler,
// prepare and resolve yield a few times, so the lock regions of assign / commit /
// complete / release interleave in ways the exchange-granularity schedules never produce
// (a caller between Pool.Get and assign while the main caller completes, an assign between
// the first status send and the swap, a release racing a Get).  Oracle only: one caller at a
// time between prepare and the end of resolve, every item handed to resolve exactly once,
// an item is in the index iff its caller got nil, nobody blocks for ever.

import (
	"errors"
	"fmt"
	"runtime"
	"sync"
	"sync/atomic"
	"time"

	"oras.land/oras-go/v2/verifhooks"
	"verifharness/common"
)

func stressMerge(seed uint64, callers, rounds int) {
	id := run.NewID()
	r := common.NewRand(seed)
	failPct := r.Intn(30)
	var pool verifhooks.MergePool
	var inside, violations int32
	var mu sync.Mutex
	index := map[int]bool{}
	handed := map[int]int{}
	var panics []string
	results := make([]error, callers*rounds)
	yields := make([]int, callers*rounds)
	fails := make([]bool, callers*rounds*2)
	for i := range yields {
		yields[i] = r.Intn(4)
	}
	for i := range fails {
		fails[i] = r.Intn(100) < failPct
	}
	var wg sync.WaitGroup
	done := make(chan struct{})
	for c := 0; c < callers; c++ {
		wg.Add(1)
		go func(c int) {
			defer wg.Done()
			defer func() {
				if p := recover(); p != nil {
					mu.Lock()
					panics = append(panics, fmt.Sprint(p))
					mu.Unlock()
				}
			}()
			for k := 0; k < rounds; k++ {
				item := c*rounds + k
				var old map[int]bool
				results[item] = pool.Do("tag", item, func() error {
					if atomic.AddInt32(&inside, 1) != 1 {
						atomic.AddInt32(&violations, 1)
					}
					for y := 0; y < yields[item]; y++ {
						runtime.Gosched()
					}
					if fails[2*item] {
						atomic.AddInt32(&inside, -1)
						return errOther
					}
					mu.Lock()
					old = map[int]bool{}
					for x := range index {
						old[x] = true
					}
					mu.Unlock()
					return nil
				}, func(items []int) error {
					defer atomic.AddInt32(&inside, -1)
					for y := 0; y < yields[item]; y++ {
						runtime.Gosched()
					}
					mu.Lock()
					for _, it := range items {
						handed[it]++
					}
					mu.Unlock()
					if fails[2*item+1] {
						return errOther
					}
					mu.Lock()
					for _, it := range items {
						old[it] = true
					}
					index = old
					mu.Unlock()
					return nil
				})
				for y := 0; y < yields[item]; y++ {
					runtime.Gosched()
				}
			}
		}(c)
	}
	go func() { wg.Wait(); close(done) }()
	rp := map[string]any{"kind": "S", "seed": fmt.Sprint(seed), "callers": fmt.Sprint(callers), "rounds": fmt.Sprint(rounds)}
	select {
	case <-done:
	case <-time.After(30 * time.Second):
		// re-confirm before reporting: give it as long again
		select {
		case <-done:
		case <-time.After(30 * time.Second):
			run.Case(id, "S hang", "S hang")
			run.OracleFail(id, "merge-deadlock", fmt.Sprintf("free-running stress seed %d: callers still blocked after 60 s", seed), rp)
			return
		}
	}
	if len(panics) > 0 {
		run.Case(id, "S panic", "S panic")
		run.OracleFail(id, "merge-panic", fmt.Sprintf("free-running stress seed %d callers %d rounds %d: %v", seed, callers, rounds, panics[0]), rp)
		return
	}
	run.Count("S/stress")
	run.Case(id, fmt.Sprintf("S %d", callers*rounds), fmt.Sprintf("S %d", callers*rounds))
	if violations != 0 {
		run.OracleFail(id, "two-mains", fmt.Sprintf("free-running stress seed %d: %d times a second caller was between prepare and the end of resolve", seed, violations), rp)
	}
	for item, err := range results {
		if (err == nil) != index[item] {
			run.OracleFail(id, "merge-lost-update", fmt.Sprintf("free-running stress seed %d: item %d error %v but presence in the index %v", seed, item, err, index[item]), rp)
			return
		}
		if handed[item] > 1 || (err == nil && handed[item] != 1) {
			run.OracleFail(id, "merge-item-twice", fmt.Sprintf("free-running stress seed %d: item %d handed to resolve %d times (error %v)", seed, item, handed[item], err), rp)
			return
		}
		if err != nil && !errors.Is(err, errOther) {
			run.OracleFail(id, "merge-lost-update", fmt.Sprintf("free-running stress seed %d: item %d unexpected error %v", seed, item, err), rp)
			return
		}
	}
}
