package main

import (
	_ "crypto/sha256"
	"fmt"

	"verifharness/common"
	"verifharness/dag"
)

func main() {
	r := common.NewRand(7)
	kinds := map[string]int{}
	for i := 0; i < 2000; i++ {
		o := dag.DefaultOptions()
		o.Twins = i%3 == 0
		g := dag.Random(r, o)
		if err := g.SelfTest(); err != nil {
			fmt.Println("FAIL", err, g.Describe())
			return
		}
		for _, n := range g.Nodes {
			kinds[n.Kind]++
			if n.Subject >= 0 {
				kinds["subject"]++
			}
		}
	}
	fmt.Println("ok", kinds)
}
