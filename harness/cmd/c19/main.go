// C19 harness: oras.PackManifest / oras.Pack.
//
// Three case families, all through the public API:
//
//	M  media type strings  (PackManifest v1.0 with ConfigDescriptor.MediaType = s on a null pusher)
//	T  created timestamps  (accepted or refused by pack.go's own validation, observed through PackManifest)
//	L  the same strings through time.Parse(time.RFC3339, s) alone (first half of validateRFC3339)
//	U  byte strings through json.Marshal/Unmarshal (coercion of invalid UTF-8)
//	K  whole pack calls over a recording target (memory / OCI layout / file store,
//	   with or without Exists, empty or pre-filled, optional injected storage fault)
//
// cases.txt carries the model input, impl.txt the projected observable of the real
// code.  The oracle (oracle.txt) is independent of the Coq model: an RFC 6838
// recogniser, a regex+range time recogniser, and for K cases the expected manifest
// computed from the documented rules with the generator's ground truth.
package main

import (
	"bytes"
	"context"
	"crypto/sha256"
	"crypto/sha512"
	"encoding/hex"
	"encoding/json"
	"errors"
	"fmt"
	"io"
	"os"
	"reflect"
	"regexp"
	"sort"
	"strconv"
	"strings"
	"time"
	"unicode/utf8"

	"github.com/opencontainers/go-digest"
	ocispec "github.com/opencontainers/image-spec/specs-go/v1"
	oras "oras.land/oras-go/v2"
	"oras.land/oras-go/v2/content"
	"oras.land/oras-go/v2/content/file"
	"oras.land/oras-go/v2/content/memory"
	"oras.land/oras-go/v2/content/oci"
	"oras.land/oras-go/v2/errdef"
	"oras.land/oras-go/v2/registry/remote"
	"verifharness/common"
)

var run *common.Run
var ctx = context.Background()

const (
	mtArtifactManifest = "application/vnd.oci.artifact.manifest.v1+json"
	keyArtifactCreated = "org.opencontainers.artifact.created"
	nowPlaceholder     = "<NOW>"
)

// ---------------------------------------------------------------- M cases

func isAlnum(c byte) bool {
	return c >= 'a' && c <= 'z' || c >= 'A' && c <= 'Z' || c >= '0' && c <= '9'
}

// restricted-name of RFC 6838 section 4.2 (at most 127 characters).
func restrictedName(s string) bool {
	if len(s) < 1 || len(s) > 127 || !isAlnum(s[0]) {
		return false
	}
	for i := 1; i < len(s); i++ {
		if !isAlnum(s[i]) && !strings.ContainsRune("!#$&-^_.+", rune(s[i])) {
			return false
		}
	}
	return true
}

func rfc6838(s string) bool {
	i := strings.IndexByte(s, '/')
	if i < 0 {
		return false
	}
	return restrictedName(s[:i]) && restrictedName(s[i+1:])
}

type nullPusher struct{ pushes int }

func (p *nullPusher) Push(context.Context, ocispec.Descriptor, io.Reader) error {
	p.pushes++
	return nil
}

func mediaTypeCase(s string) {
	id := run.NewID()
	np := &nullPusher{}
	_, err := oras.PackManifest(ctx, np, oras.PackManifestVersion1_0, "", oras.PackManifestOptions{
		ConfigDescriptor:    &ocispec.Descriptor{MediaType: s},
		ManifestAnnotations: map[string]string{ocispec.AnnotationCreated: "2000-01-01T00:00:00Z"},
	})
	obs := "1"
	rejected := errors.Is(err, errdef.ErrInvalidMediaType)
	if rejected {
		obs = "0"
	} else if err != nil {
		obs = "ERR:" + err.Error()
	}
	run.Case(id, "M "+common.Hex(s), obs)
	rep := map[string]string{"op": "M", "hex": common.Hex(s)}
	want := rfc6838(s)
	if want {
		run.Count("mediatype_valid")
		run.Nontrivial("M:" + s)
	} else {
		run.Count("mediatype_invalid")
	}
	if want == rejected {
		run.OracleFail(id, "media-type-grammar", fmt.Sprintf("media type %q: RFC 6838 says valid=%v but PackManifest rejected=%v (%v)", s, want, rejected, err), rep)
	}
	if rejected && np.pushes != 0 {
		run.OracleFail(id, "reject-after-push", fmt.Sprintf("media type %q rejected after %d pushes", s, np.pushes), rep)
	}
}

// ---------------------------------------------------------------- T cases

var timeRe = regexp.MustCompile(`^([0-9]{4})-([0-9]{2})-([0-9]{2})T([0-9]{1,2}):([0-9]{2}):([0-9]{2})([.,][0-9]+)?(Z|[+-]([0-9]{2}):([0-9]{2}))$`)

// goRFC3339: what the Go documentation of time.Parse with layout RFC3339 accepts
// (RFC 3339 date-time with upper-case T/Z, plus the documented leniencies: one-digit
// hour, comma as fraction separator, offsets up to 24:60), written as regex + ranges.
func goRFC3339(s string) bool {
	if strings.ContainsAny(s, "\n") {
		return false
	}
	m := timeRe.FindStringSubmatch(s)
	if m == nil {
		return false
	}
	n := func(x string) int { v, _ := strconv.Atoi(x); return v }
	y, mo, d, h, mi, sec := n(m[1]), n(m[2]), n(m[3]), n(m[4]), n(m[5]), n(m[6])
	if mo < 1 || mo > 12 || h > 23 || mi > 59 || sec > 59 || d < 1 {
		return false
	}
	dim := []int{31, 28, 31, 30, 31, 30, 31, 31, 30, 31, 30, 31}[mo-1]
	if mo == 2 && y%4 == 0 && (y%100 != 0 || y%400 == 0) {
		dim = 29
	}
	if d > dim {
		return false
	}
	if m[8] != "Z" && (n(m[9]) > 24 || n(m[10]) > 60) {
		return false
	}
	return true
}

// RFC 3339 section 5.6 date-time, ranges included ("T"/"Z" in either case, second 60 allowed
// as a leap second).  Anything outside is malformed.
var rfcRe = regexp.MustCompile(`^([0-9]{4})-([0-9]{2})-([0-9]{2})[Tt]([0-9]{2}):([0-9]{2}):([0-9]{2})(\.[0-9]+)?([Zz]|[+-]([0-9]{2}):([0-9]{2}))$`)

func rfc3339Wellformed(s string) bool {
	if strings.ContainsAny(s, "\n") {
		return false
	}
	m := rfcRe.FindStringSubmatch(s)
	if m == nil {
		return false
	}
	n := func(x string) int { v, _ := strconv.Atoi(x); return v }
	y, mo, d, h, mi, sec := n(m[1]), n(m[2]), n(m[3]), n(m[4]), n(m[5]), n(m[6])
	if mo < 1 || mo > 12 || h > 23 || mi > 59 || sec > 60 || d < 1 {
		return false
	}
	dim := []int{31, 28, 31, 30, 31, 30, 31, 31, 30, 31, 30, 31}[mo-1]
	if mo == 2 && y%4 == 0 && (y%100 != 0 || y%400 == 0) {
		dim = 29
	}
	if d > dim {
		return false
	}
	if m[8] != "Z" && m[8] != "z" && (n(m[9]) > 23 || n(m[10]) > 59) {
		return false
	}
	return true
}

// rfc3339MustAccept: the well-formed timestamps Go documents to accept (upper-case T and Z,
// no leap second).
func rfc3339MustAccept(s string) bool {
	return rfc3339Wellformed(s) && !strings.ContainsAny(s, "tz") && s[17:19] != "60"
}

// createdAccepted observes pack.go's own validation through the public API.
func createdAccepted(s string) (bool, error) {
	np := &nullPusher{}
	_, err := oras.PackManifest(ctx, np, oras.PackManifestVersion1_1, "application/vnd.verif.t", oras.PackManifestOptions{
		ManifestAnnotations: map[string]string{ocispec.AnnotationCreated: s},
	})
	if err == nil {
		return true, nil
	}
	if errors.Is(err, oras.ErrInvalidDateTimeFormat) {
		return false, nil
	}
	return false, err
}

// parseCase: time.Parse(time.RFC3339, s) itself against the lenient recogniser of the model (the
// first half of validateRFC3339), and against the documented lenient grammar.
func parseCase(s string) {
	id := run.NewID()
	_, err := time.Parse(time.RFC3339, s)
	obs := "0"
	if err == nil {
		obs = "1"
		run.Count("parse_accepted")
	} else {
		run.Count("parse_rejected")
	}
	run.Case(id, "L "+common.Hex(s), obs)
	if goRFC3339(s) != (err == nil) {
		run.OracleFail(id, "time-recogniser", fmt.Sprintf("time.Parse(RFC3339, %q) ok=%v but the documented (lenient) grammar says %v", s, err == nil, goRFC3339(s)),
			map[string]string{"op": "L", "hex": common.Hex(s)})
	}
}

func timeCase(s string) {
	parseCase(s)
	id := run.NewID()
	ok, err := createdAccepted(s)
	obs := "0"
	if err != nil {
		obs = "ERR:" + common.Hex(err.Error())
	} else if ok {
		obs = "1"
		run.Count("time_accepted")
		run.Nontrivial("T:" + s)
	} else {
		run.Count("time_rejected")
	}
	run.Case(id, "T "+common.Hex(s), obs)
	rep := map[string]string{"op": "T", "hex": common.Hex(s)}
	switch {
	case ok && !rfc3339Wellformed(s) && goRFC3339(s):
		run.OracleFail(id, "created-lenient", fmt.Sprintf("created=%q is not RFC 3339 (one of the leniencies of time.Parse) but is accepted", s), rep)
	case ok && !rfc3339Wellformed(s):
		run.OracleFail(id, "created-malformed-accepted", fmt.Sprintf("created=%q is not RFC 3339 but is accepted", s), rep)
	case !ok && rfc3339MustAccept(s):
		run.OracleFail(id, "created-wellformed-rejected", fmt.Sprintf("created=%q is a well-formed RFC 3339 timestamp but is rejected: %v", s, err), rep)
	}
}

// ---------------------------------------------------------------- K cases

type prefill struct {
	MediaType string `json:"mt"`
	Content   string `json:"content"`
}

type spec struct {
	Fn        string               `json:"fn"`     // v10 v11 vbad rc2 art
	Target    string               `json:"target"` // memory oci file
	Exists    bool                 `json:"exists"` // the pusher handed to Pack implements Exists
	FailAt    int                  `json:"fail_at"`
	AT        string               `json:"artifact_type"`
	Subject   *ocispec.Descriptor  `json:"subject,omitempty"`
	Layers    []ocispec.Descriptor `json:"layers"`
	LayersNil bool                 `json:"layers_nil"`
	Ann       map[string]string    `json:"ann"`
	Config    *ocispec.Descriptor  `json:"config,omitempty"`
	ConfigAnn map[string]string    `json:"config_ann"`
	Prefill   []prefill            `json:"prefill"`
	Backed    map[string]string    `json:"backed"` // digest -> content of user-supplied descriptors present in the target
	FaultErr  string               `json:"fault_err,omitempty"` // what the failing storage operation returns: "" plain, notfound, dupname, closed
	// strings that are not valid UTF-8 cannot travel in JSON: hex encoded (hex key -> hex value)
	HexAT        string            `json:"hex_at,omitempty"`
	HexAnn       map[string]string `json:"hex_ann,omitempty"`
	HexConfigAnn map[string]string `json:"hex_config_ann,omitempty"`
	HexLayers    []string          `json:"hex_layers,omitempty"` // descriptor tokens (showDesc), when a layer string is not UTF-8
	HexConfig    string            `json:"hex_config,omitempty"`
	// history: the specs (JSON) of the calls made before this one on the same target, oldest first
	Prev []string `json:"prev,omitempty"`
}

// chainState: a target shared by consecutive cases (a history of different calls); the store the
// model starts from is everything put there so far.
type chainState struct {
	inner   storage
	cleanup func()
	entries []string
	target  string
	prev    []string
	specs   []*spec  // the calls of the history, in order
	results []string // per call: the error kind, or "ok" / "ok:<digest>" (digest when created was fixed)
	faulted bool
}

// resultToken: what a call returned, as far as it is a function of the call alone.
func resultToken(sp *spec, desc ocispec.Descriptor, err error) string {
	if err != nil {
		return errKind(err)
	}
	if _, fixed := sp.Ann[createdKey(sp.Fn)]; fixed {
		return "ok:" + string(desc.Digest)
	}
	return "ok"
}

var chain *chainState

func startChain(target string) {
	inner, cleanup := newTarget(target)
	chain = &chainState{inner: inner, cleanup: cleanup, target: target}
}

func endChain() {
	if chain == nil {
		return
	}
	c := chain
	chain = nil
	c.cleanup()
	// order irrelevance: the same calls in reverse order on a fresh memory store return the same, call for call
	if c.faulted || len(c.specs) < 2 {
		return
	}
	run.Count("history_order_checked")
	fresh := memory.New()
	for i := len(c.specs) - 1; i >= 0; i-- {
		sp := c.specs[i]
		d, err := callPack(sp, pusherOnly{&recorder{inner: fresh, failAt: -1}})
		if got := resultToken(sp, d, err); got != c.results[i] {
			last := *c.specs[len(c.specs)-1]
			last.Prev = c.prev[:len(c.prev)-1]
			run.OracleFail(run.NewID(), "history-order-dependent",
				fmt.Sprintf("call %d of a history (%s) returned %s; made in reverse order on an empty store it returns %s", i, sp.Fn, c.results[i], got),
				map[string]string{"op": "K", "spec": specJSON(&last)})
		}
	}
}

func hexMap(m map[string]string) map[string]string {
	out := map[string]string{}
	for k, v := range m {
		out[common.Hex(k)] = common.Hex(v)
	}
	return out
}

func unhexMap(m map[string]string) map[string]string {
	out := map[string]string{}
	for k, v := range m {
		out[common.UnHex(k)] = common.UnHex(v)
	}
	return out
}

func validMap(m map[string]string) bool {
	for k, v := range m {
		if !utf8.ValidString(k) || !utf8.ValidString(v) {
			return false
		}
	}
	return true
}

func validDesc(d ocispec.Descriptor) bool {
	ok := utf8.ValidString(d.MediaType) && utf8.ValidString(string(d.Digest)) && utf8.ValidString(d.ArtifactType) && validMap(d.Annotations)
	for _, u := range d.URLs {
		ok = ok && utf8.ValidString(u)
	}
	return ok
}

func unhexList(s, sep string) []string {
	var out []string
	for _, x := range strings.Split(s, sep) {
		out = append(out, common.UnHex(x))
	}
	return out
}

// parseDescToken is the inverse of showDesc.
func parseDescToken(t string) ocispec.Descriptor {
	f := strings.Split(t, ":")
	if len(f) != 7 || f[0] != "D" {
		panic("descriptor token " + t)
	}
	sz, _ := strconv.ParseInt(f[3], 10, 64)
	d := ocispec.Descriptor{MediaType: common.UnHex(f[1]), Digest: digest.Digest(common.UnHex(f[2])), Size: sz, ArtifactType: common.UnHex(f[5])}
	if f[4] != "-" {
		d.Annotations = map[string]string{}
		for _, kv := range strings.Split(f[4], ";") {
			p := strings.SplitN(kv, "=", 2)
			d.Annotations[common.UnHex(p[0])] = common.UnHex(p[1])
		}
	}
	x := strings.Split(f[6], "~")
	if x[0] != "_" {
		d.URLs = unhexList(x[0], ".")
	}
	if x[1] != "_" {
		d.Data = []byte(common.UnHex(x[1]))
	}
	if x[2] != "_" {
		p := strings.Split(x[2], ".")
		d.Platform = &ocispec.Platform{Architecture: common.UnHex(p[0]), OS: common.UnHex(p[1]), OSVersion: common.UnHex(p[2]), Variant: common.UnHex(p[4])}
		if p[3] != "_" {
			d.Platform.OSFeatures = unhexList(p[3], "+")
		}
	}
	return d
}

// decodeHex restores the raw strings of a replayed spec.
func (sp *spec) decodeHex() {
	if sp.HexLayers != nil {
		sp.Layers = nil
		for _, t := range sp.HexLayers {
			sp.Layers = append(sp.Layers, parseDescToken(t))
		}
		sp.HexLayers = nil
	}
	if sp.HexConfig != "" {
		d := parseDescToken(sp.HexConfig)
		sp.Config, sp.HexConfig = &d, ""
	}
	if sp.HexAT != "" {
		sp.AT, sp.HexAT = common.UnHex(sp.HexAT), ""
	}
	if sp.HexAnn != nil {
		sp.Ann, sp.HexAnn = unhexMap(sp.HexAnn), nil
	}
	if sp.HexConfigAnn != nil {
		sp.ConfigAnn, sp.HexConfigAnn = unhexMap(sp.HexConfigAnn), nil
	}
}

// nonUTF8 reports whether a caller string that reaches the manifest document is not valid UTF-8.
func (sp *spec) nonUTF8() bool {
	for _, l := range sp.Layers {
		if !validDesc(l) {
			return true
		}
	}
	if sp.Config != nil && !validDesc(*sp.Config) {
		return true
	}
	return !utf8.ValidString(sp.AT) || !validMap(sp.Ann) || !validMap(sp.ConfigAnn)
}

// sanString is what encoding/json makes of a Go string: every byte that does not start a
// well-formed UTF-8 sequence becomes U+FFFD.
func sanString(s string) string {
	if utf8.ValidString(s) {
		return s
	}
	var b strings.Builder
	for i := 0; i < len(s); {
		r, n := utf8.DecodeRuneInString(s[i:])
		if r == utf8.RuneError && n == 1 {
			b.WriteString("\uFFFD")
		} else {
			b.WriteString(s[i : i+n])
		}
		i += n
	}
	return b.String()
}

func sanMap(m map[string]string) map[string]string {
	if m == nil {
		return nil
	}
	out := map[string]string{}
	for k, v := range m {
		out[sanString(k)] = sanString(v)
	}
	return out
}

func sanDescP(d *ocispec.Descriptor) *ocispec.Descriptor {
	if d == nil {
		return nil
	}
	c := *d
	c.MediaType, c.ArtifactType, c.Digest = sanString(c.MediaType), sanString(c.ArtifactType), digest.Digest(sanString(string(c.Digest)))
	c.Annotations = sanMap(c.Annotations)
	if c.URLs != nil {
		us := make([]string, len(c.URLs))
		for i, u := range c.URLs {
			us[i] = sanString(u)
		}
		c.URLs = us
	}
	return &c
}

func sanDoc(m doc) doc {
	m.AT, m.Ann, m.Config, m.Subject = sanString(m.AT), sanMap(m.Ann), sanDescP(m.Config), sanDescP(m.Subject)
	var ls []ocispec.Descriptor
	for i := range m.Layers {
		ls = append(ls, *sanDescP(&m.Layers[i]))
	}
	if m.Layers != nil {
		m.Layers = ls
		if ls == nil {
			m.Layers = []ocispec.Descriptor{}
		}
	}
	return m
}

var errInjected = errors.New("verif: injected storage fault")

type event struct {
	kind  string // X | P
	desc  ocispec.Descriptor
	data  []byte
	err   error
	found bool
}

type storage interface {
	content.Storage
}

type recorder struct {
	inner    storage
	events   []event
	ops      int
	failAt   int
	faultErr string
}

// fault is the error of the failing storage operation: always recognisable as injected, and
// optionally also one of the errors real stores return (a Pack that swallows that class
// would then succeed although the operation failed)
func (r *recorder) fault(op string) error {
	switch r.faultErr {
	case "notfound":
		return fmt.Errorf("%s: %w: %w", op, errInjected, errdef.ErrNotFound)
	case "dupname":
		return fmt.Errorf("%s: %w: %w", op, errInjected, file.ErrDuplicateName)
	case "closed":
		return fmt.Errorf("%s: %w: %w", op, errInjected, file.ErrStoreClosed)
	case "unsupported":
		return fmt.Errorf("%s: %w: %w", op, errInjected, errdef.ErrUnsupported)
	}
	return fmt.Errorf("%s: %w", op, errInjected)
}

func (r *recorder) push(c context.Context, d ocispec.Descriptor, rd io.Reader) error {
	op := r.ops
	r.ops++
	if op == r.failAt {
		r.events = append(r.events, event{kind: "P", desc: d, err: errInjected})
		return r.fault("push")
	}
	data, err := io.ReadAll(rd)
	if err != nil {
		return err
	}
	err = r.inner.Push(c, d, bytes.NewReader(data))
	r.events = append(r.events, event{kind: "P", desc: d, data: data, err: err})
	return err
}

func (r *recorder) exists(c context.Context, d ocispec.Descriptor) (bool, error) {
	op := r.ops
	r.ops++
	if op == r.failAt {
		r.events = append(r.events, event{kind: "X", desc: d, err: errInjected})
		return false, r.fault("exists")
	}
	ok, err := r.inner.Exists(c, d)
	r.events = append(r.events, event{kind: "X", desc: d, err: err, found: ok})
	return ok, err
}

type pusherOnly struct{ r *recorder }

func (p pusherOnly) Push(c context.Context, d ocispec.Descriptor, rd io.Reader) error {
	return p.r.push(c, d, rd)
}

type fullStorage struct{ r *recorder }

func (p fullStorage) Push(c context.Context, d ocispec.Descriptor, rd io.Reader) error {
	return p.r.push(c, d, rd)
}
func (p fullStorage) Exists(c context.Context, d ocispec.Descriptor) (bool, error) {
	return p.r.exists(c, d)
}
func (p fullStorage) Fetch(c context.Context, d ocispec.Descriptor) (io.ReadCloser, error) {
	return p.r.inner.Fetch(c, d)
}

// ---------- textual projections shared with ml/c19_main.ml ----------

func showAnn(m map[string]string) string {
	if len(m) == 0 {
		return "-"
	}
	type pair struct{ k, v string }
	var ps []pair
	for k, v := range m {
		ps = append(ps, pair{common.Hex(k), common.Hex(v)})
	}
	// same order as ml/c19_main.ml: by hex key (keys are unique)
	sort.Slice(ps, func(i, j int) bool { return ps[i].k < ps[j].k })
	out := make([]string, len(ps))
	for i, p := range ps {
		out[i] = p.k + "=" + p.v
	}
	return strings.Join(out, ";")
}

// descExtra: urls~data~platform ("_" = absent), see ml/c19_main.ml extra_of
func descExtra(d ocispec.Descriptor) string {
	u, dt, p := "_", "_", "_"
	if len(d.URLs) > 0 {
		var hs []string
		for _, x := range d.URLs {
			hs = append(hs, common.Hex(x))
		}
		u = strings.Join(hs, ".")
	}
	if len(d.Data) > 0 {
		dt = common.Hex(string(d.Data))
	}
	if d.Platform != nil {
		f := "_"
		if len(d.Platform.OSFeatures) > 0 {
			var hs []string
			for _, x := range d.Platform.OSFeatures {
				hs = append(hs, common.Hex(x))
			}
			f = strings.Join(hs, "+")
		}
		p = strings.Join([]string{common.Hex(d.Platform.Architecture), common.Hex(d.Platform.OS), common.Hex(d.Platform.OSVersion), f,
			common.Hex(d.Platform.Variant)}, ".")
	}
	return u + "~" + dt + "~" + p
}

func showDesc(d ocispec.Descriptor) string {
	return fmt.Sprintf("D:%s:%s:%d:%s:%s:%s", common.Hex(d.MediaType), common.Hex(string(d.Digest)), d.Size,
		showAnn(d.Annotations), common.Hex(d.ArtifactType), descExtra(d))
}

func showODesc(d *ocispec.Descriptor) string {
	if d == nil {
		return "N"
	}
	return showDesc(*d)
}

func showList(l []ocispec.Descriptor, isNil bool) string {
	if isNil {
		return "N"
	}
	ps := []string{"L"}
	for _, d := range l {
		ps = append(ps, showDesc(d))
	}
	return strings.Join(ps, ",")
}

// doc is the manifest as a JSON-level document.
type doc struct {
	Kind     string // I | A | ?
	Config   *ocispec.Descriptor
	Layers   []ocispec.Descriptor
	LayersNo bool // null or absent
	Subject  *ocispec.Descriptor
	AT       string
	Ann      map[string]string
}

func (m doc) String() string {
	return fmt.Sprintf("kind=%s cfg=%s layers=%s subj=%s at=%s ann=%s", m.Kind, showODesc(m.Config),
		showList(m.Layers, m.LayersNo), showODesc(m.Subject), common.Hex(m.AT), showAnn(m.Ann))
}

func parseDoc(data []byte) (doc, string, error) {
	var top map[string]json.RawMessage
	if err := json.Unmarshal(data, &top); err != nil {
		return doc{}, "", err
	}
	var m doc
	var mt string
	get := func(k string, v any) error {
		raw, ok := top[k]
		if !ok {
			return nil
		}
		delete(top, k)
		return json.Unmarshal(raw, v)
	}
	if err := get("mediaType", &mt); err != nil {
		return m, "", err
	}
	var sv int
	switch mt {
	case ocispec.MediaTypeImageManifest:
		m.Kind = "I"
		if err := get("schemaVersion", &sv); err != nil || sv != 2 {
			return m, mt, fmt.Errorf("schemaVersion %d %v", sv, err)
		}
		if err := get("config", &m.Config); err != nil {
			return m, mt, err
		}
		raw, ok := top["layers"]
		if !ok || string(raw) == "null" {
			m.LayersNo = true
		}
		if err := get("layers", &m.Layers); err != nil {
			return m, mt, err
		}
	case mtArtifactManifest:
		m.Kind = "A"
		raw, ok := top["blobs"]
		if !ok || string(raw) == "null" {
			m.LayersNo = true
		}
		if err := get("blobs", &m.Layers); err != nil {
			return m, mt, err
		}
	default:
		m.Kind = "?"
	}
	if err := get("subject", &m.Subject); err != nil {
		return m, mt, err
	}
	if err := get("artifactType", &m.AT); err != nil {
		return m, mt, err
	}
	if err := get("annotations", &m.Ann); err != nil {
		return m, mt, err
	}
	if len(top) != 0 {
		return m, mt, fmt.Errorf("unexpected manifest fields %v", top)
	}
	return m, mt, nil
}

func errKind(err error) string {
	switch {
	case err == nil:
		return "ok"
	case errors.Is(err, errInjected), errors.Is(err, file.ErrDuplicateName):
		return "storage-error" // the target failed: injected fault, or a file store refusing a taken name
	case errors.Is(err, errdef.ErrInvalidMediaType):
		return "invalid-media-type"
	case errors.Is(err, oras.ErrMissingArtifactType):
		return "missing-artifact-type"
	case errors.Is(err, oras.ErrInvalidDateTimeFormat):
		return "invalid-datetime"
	case errors.Is(err, errdef.ErrUnsupported):
		return "unsupported"
	}
	return "other:" + common.Hex(err.Error())
}

func createdKey(fn string) string {
	if fn == "art" {
		return keyArtifactCreated
	}
	return ocispec.AnnotationCreated
}

func cloneAnn(m map[string]string) map[string]string {
	if m == nil {
		return nil
	}
	c := make(map[string]string, len(m))
	for k, v := range m {
		c[k] = v
	}
	return c
}

// maskNow replaces a generated created value by the placeholder when it is a
// timestamp of this call.
func maskNow(ann map[string]string, key string, had bool, t0, t1 time.Time) map[string]string {
	if had || ann == nil {
		return ann
	}
	v, ok := ann[key]
	if !ok {
		return ann
	}
	ts, err := time.Parse(time.RFC3339, v)
	if err != nil || ts.Before(t0.Add(-2*time.Second)) || ts.After(t1.Add(2*time.Second)) || !strings.HasSuffix(v, "Z") {
		return ann
	}
	c := cloneAnn(ann)
	c[key] = nowPlaceholder
	return c
}

func newTarget(kind string) (storage, func()) {
	switch kind {
	case "memory":
		return memory.New(), func() {}
	case "oci":
		dir, err := os.MkdirTemp("", "c19oci")
		if err != nil {
			panic(err)
		}
		s, err := oci.New(dir)
		if err != nil {
			panic(err)
		}
		return s, func() { os.RemoveAll(dir) }
	case "file":
		dir, err := os.MkdirTemp("", "c19file")
		if err != nil {
			panic(err)
		}
		s, err := file.New(dir)
		if err != nil {
			panic(err)
		}
		return s, func() { s.Close(); os.RemoveAll(dir) }
	case "registry":
		return newRegistryTarget(), func() {}
	}
	panic("target " + kind)
}

// keyKind: 0 media type+digest+size, 1 digest, 2 digest per manifest/blob namespace, 3 file store
func keyKind(kind string) string {
	return map[string]string{"memory": "0", "file": "3", "oci": "1", "registry": "2"}[kind]
}

func callPack(sp *spec, p content.Pusher) (ocispec.Descriptor, error) {
	layers := sp.Layers
	if sp.LayersNil {
		layers = nil
	} else if layers == nil {
		layers = []ocispec.Descriptor{}
	}
	var subj, cfg *ocispec.Descriptor
	if sp.Subject != nil {
		c := *sp.Subject
		subj = &c
	}
	if sp.Config != nil {
		c := *sp.Config
		cfg = &c
	}
	switch sp.Fn {
	case "v10", "v11", "vbad":
		v := map[string]oras.PackManifestVersion{"v10": oras.PackManifestVersion1_0, "v11": oras.PackManifestVersion1_1, "vbad": 7}[sp.Fn]
		return oras.PackManifest(ctx, p, v, sp.AT, oras.PackManifestOptions{Subject: subj, Layers: layers,
			ManifestAnnotations: cloneAnn(sp.Ann), ConfigDescriptor: cfg, ConfigAnnotations: cloneAnn(sp.ConfigAnn)})
	case "rc2", "art":
		return oras.Pack(ctx, p, sp.AT, layers, oras.PackOptions{Subject: subj, ManifestAnnotations: cloneAnn(sp.Ann),
			PackImageManifest: sp.Fn == "rc2", ConfigDescriptor: cfg, ConfigAnnotations: cloneAnn(sp.ConfigAnn)})
	}
	panic("fn " + sp.Fn)
}

// descOf512 describes data by its SHA-512 digest (registered algorithm, other blob directory /
// key space in every target).
const callTimeout = 20 * time.Second

// callPackWatched runs the call under a watchdog (the targets are in-process; nothing in Pack waits
// on anything, so a wedge can only come from a changed code path).
func callPackWatched(sp *spec, p content.Pusher) (ocispec.Descriptor, error, bool) {
	type res struct {
		d   ocispec.Descriptor
		err error
	}
	ch := make(chan res, 1)
	go func() {
		d, err := callPack(sp, p)
		ch <- res{d, err}
	}()
	select {
	case r := <-ch:
		return r.d, r.err, false
	case <-time.After(callTimeout):
		return ocispec.Descriptor{}, nil, true
	}
}

func descOf512(mt string, data []byte) ocispec.Descriptor {
	h := sha512.Sum512(data)
	return ocispec.Descriptor{MediaType: mt, Digest: digest.Digest("sha512:" + hex.EncodeToString(h[:])), Size: int64(len(data))}
}

func descOf(mt string, data []byte) ocispec.Descriptor {
	h := sha256.Sum256(data)
	return ocispec.Descriptor{MediaType: mt, Digest: digest.Digest("sha256:" + hex.EncodeToString(h[:])), Size: int64(len(data))}
}

// expectation from the documentation of PackManifest / Pack (independent of the Coq model)
type expectation struct {
	reject     bool // must fail with a validation error before any push
	badCreated bool // created is not RFC 3339: must fail
	mayReject  bool // created is RFC 3339 in a form Go does not take (lower-case t/z, leap second): either
	want       doc
	invented   []ocispec.Descriptor
	descAT     string
}

func expect(sp *spec) expectation {
	var e expectation
	key := createdKey(sp.Fn)
	switch sp.Fn {
	case "vbad":
		e.reject = true
	case "v10":
		if sp.Subject != nil {
			e.reject = true
		}
		if sp.Config != nil && !rfc6838(sp.Config.MediaType) {
			e.reject = true
		}
		if sp.Config == nil && sp.AT != "" && !rfc6838(sp.AT) {
			e.reject = true
		}
	case "v11":
		if sp.AT == "" && (sp.Config == nil || sp.Config.MediaType == ocispec.MediaTypeEmptyJSON) {
			e.reject = true
		}
		if sp.AT != "" && !rfc6838(sp.AT) {
			e.reject = true
		}
		if sp.Config != nil && !rfc6838(sp.Config.MediaType) {
			e.reject = true
		}
	}
	if v, ok := sp.Ann[key]; ok && !rfc3339Wellformed(v) {
		e.badCreated = true
	} else if ok && !rfc3339MustAccept(v) {
		e.mayReject = true
	}
	if e.reject || e.badCreated {
		return e
	}
	emptyCfg := func(mt string) *ocispec.Descriptor {
		d := descOf(mt, []byte("{}"))
		if len(sp.ConfigAnn) > 0 {
			d.Annotations = sp.ConfigAnn
		}
		e.invented = append(e.invented, d)
		return &d
	}
	w := doc{Ann: cloneAnn(sp.Ann), Subject: sp.Subject, Layers: sp.Layers}
	if w.Ann == nil {
		w.Ann = map[string]string{}
	}
	if _, ok := w.Ann[key]; !ok {
		w.Ann[key] = nowPlaceholder
	}
	switch sp.Fn {
	case "v10", "rc2":
		w.Kind = "I"
		if sp.Config != nil {
			w.Config = sp.Config
		} else if sp.AT == "" {
			w.Config = emptyCfg(oras.MediaTypeUnknownConfig)
		} else {
			w.Config = emptyCfg(sp.AT)
		}
		e.descAT = w.Config.MediaType
	case "v11":
		w.Kind = "I"
		w.AT = sp.AT
		if sp.Config != nil {
			w.Config = sp.Config
		} else {
			d := ocispec.DescriptorEmptyJSON
			if len(sp.ConfigAnn) > 0 {
				d.Annotations = sp.ConfigAnn
			}
			e.invented = append(e.invented, d)
			w.Config = &d
		}
		if len(sp.Layers) == 0 {
			w.Layers = []ocispec.Descriptor{ocispec.DescriptorEmptyJSON}
			e.invented = append(e.invented, ocispec.DescriptorEmptyJSON)
		}
		e.descAT = sp.AT
	case "art":
		w.Kind = "A"
		w.AT = sp.AT
		if w.AT == "" {
			w.AT = oras.MediaTypeUnknownArtifact
		}
		if len(sp.Layers) == 0 {
			w.LayersNo = true
		}
		e.descAT = w.AT
	}
	e.want = w
	return e
}

func specJSON(sp *spec) string {
	c := *sp
	if !utf8.ValidString(c.AT) {
		c.HexAT, c.AT = common.Hex(c.AT), ""
	}
	if !validMap(c.Ann) {
		c.HexAnn, c.Ann = hexMap(c.Ann), nil
	}
	if !validMap(c.ConfigAnn) {
		c.HexConfigAnn, c.ConfigAnn = hexMap(c.ConfigAnn), nil
	}
	layersOK := true
	for _, l := range c.Layers {
		layersOK = layersOK && validDesc(l)
	}
	if !layersOK {
		for _, l := range c.Layers {
			c.HexLayers = append(c.HexLayers, showDesc(l))
		}
		c.Layers = nil
	}
	if c.Config != nil && !validDesc(*c.Config) {
		c.HexConfig, c.Config = showDesc(*c.Config), nil
	}
	js, err := json.Marshal(&c)
	if err != nil {
		panic(err)
	}
	return string(js)
}

func packCase(sp *spec) {
	id := run.NewID()
	var inner storage
	var storeEntries []string
	if chain != nil {
		inner, sp.Target, sp.Prev = chain.inner, chain.target, append([]string{}, chain.prev...)
		storeEntries = append(storeEntries, chain.entries...)
		run.Count("history_chained_call")
	} else {
		var cleanup func()
		inner, cleanup = newTarget(sp.Target)
		defer cleanup()
	}
	rep := map[string]string{"op": "K", "spec": specJSON(sp)}
	fail := func(sig, format string, a ...any) {
		run.OracleFail(id, sig, fmt.Sprintf(format, a...), rep)
	}

	// pre-existing content
	seenEntry := map[string]bool{}
	addEntry := func(d ocispec.Descriptor, data []byte) {
		err := inner.Push(ctx, d, bytes.NewReader(data))
		if err != nil && !errors.Is(err, errdef.ErrAlreadyExists) && !errors.Is(err, file.ErrDuplicateName) {
			panic(fmt.Sprintf("prefill %v: %v", d, err))
		}
		e := fmt.Sprintf("%s:%s:%d", common.Hex(d.MediaType), common.Hex(string(d.Digest)), d.Size)
		if t := d.Annotations[ocispec.AnnotationTitle]; t != "" {
			e += ":" + common.Hex(t) // a named file of the file store
		}
		if err == nil || !seenEntry[e] {
			storeEntries = append(storeEntries, e)
		}
		seenEntry[e] = true
	}
	for _, p := range sp.Prefill {
		addEntry(descOf(p.MediaType, []byte(p.Content)), []byte(p.Content))
	}
	backed := func(d ocispec.Descriptor) {
		if c, ok := sp.Backed[string(d.Digest)]; ok {
			e := ocispec.Descriptor{MediaType: d.MediaType, Digest: d.Digest, Size: d.Size}
			if t := d.Annotations[ocispec.AnnotationTitle]; t != "" && sp.Target == "file" {
				e.Annotations = map[string]string{ocispec.AnnotationTitle: t} // stored as a named file
			}
			addEntry(e, []byte(c))
		}
	}
	for _, d := range sp.Layers {
		backed(d)
	}
	if sp.Subject != nil {
		backed(*sp.Subject)
	}
	if sp.Config != nil {
		backed(*sp.Config)
	}

	if repo, ok := inner.(*remote.Repository); ok {
		// everything the caller refers to is in the registry: let it validate the manifest
		v := allBacked(sp, false)
		repo.Client.(*fakeRegistry).validate = v
		if v {
			run.Count("registry_validating")
		}
	}
	rec := &recorder{inner: inner, failAt: sp.FailAt, faultErr: sp.FaultErr}
	var packDesc ocispec.Descriptor
	var packErr error
	if chain != nil {
		defer func() { // what this call stored is there for the next call of the history
			for _, e := range rec.events {
				if e.kind == "P" && e.err == nil {
					storeEntries = append(storeEntries, fmt.Sprintf("%s:%s:%d", common.Hex(e.desc.MediaType), common.Hex(string(e.desc.Digest)), e.desc.Size))
				}
			}
			prev := *sp
			prev.Prev = nil
			chain.entries, chain.prev = storeEntries, append(chain.prev, specJSON(&prev))
			chain.specs, chain.results = append(chain.specs, &prev), append(chain.results, resultToken(sp, packDesc, packErr))
			if sp.FailAt >= 0 {
				chain.faulted = true
			}
		}()
	}
	var p content.Pusher = pusherOnly{rec}
	if sp.Exists {
		p = fullStorage{rec}
	}
	t0 := time.Now()
	desc, err, wedged := callPackWatched(sp, p)
	packDesc, packErr = desc, err
	t1 := time.Now()
	if wedged {
		// no call may block: a wedge is a finding with a replay, not a hung check
		fail("hang", "%s on %s did not return within %v", sp.Fn, sp.Target, callTimeout)
		run.Finish()
		fmt.Println("a Pack call hung; see oracle.txt")
		os.Exit(4)
	}
	kind := errKind(err)
	key := createdKey(sp.Fn)
	_, hadCreated := sp.Ann[key]

	// ---- projected observable of one call (for the model comparison)
	type projection struct {
		obs                        string
		got                        doc
		gotMT                      string
		stored                     []byte
		parseErr                   error
		manifestPushes, blobPushes int
	}
	project := func(rec *recorder, desc ocispec.Descriptor, err error, t0, t1 time.Time, withDigest bool) projection {
		kind := errKind(err)
		var evs []string
		manifestPushes, blobPushes := 0, 0
		for _, e := range rec.events {
			d := e.desc
			isManifest := string(e.data) != "{}"
			if errors.Is(e.err, errInjected) { // the fault hit before the content was read
				isManifest = d.Digest != ocispec.DescriptorEmptyJSON.Digest
			}
			switch {
			case e.kind == "X":
				evs = append(evs, fmt.Sprintf("X:%s:%s:%d:%s", common.Hex(d.MediaType), common.Hex(string(d.Digest)), d.Size, showAnn(d.Annotations)))
			case isManifest:
				manifestPushes++
				evs = append(evs, fmt.Sprintf("PM:%s:%s:%s", common.Hex(d.MediaType), common.Hex(d.ArtifactType),
					showAnn(maskNow(d.Annotations, key, hadCreated, t0, t1))))
			default:
				blobPushes++
				evs = append(evs, fmt.Sprintf("PB:%s:%s:%d:%s", common.Hex(d.MediaType), common.Hex(string(d.Digest)), d.Size, showAnn(d.Annotations)))
			}
		}
		ev := "-"
		if len(evs) > 0 {
			ev = strings.Join(evs, ";")
		}
		var got doc
		var gotMT string
		var stored []byte
		var parseErr error
		obs := ""
		if err != nil {
			obs = "ERR " + kind + " EV " + ev
		} else {
			var ferr error
			stored, ferr = content.FetchAll(ctx, inner, desc)
			if ferr != nil {
				parseErr = ferr
			} else {
				got, gotMT, parseErr = parseDoc(stored)
			}
			if parseErr != nil {
				obs = "OK unparsable:" + common.Hex(parseErr.Error()) + " EV " + ev
			} else {
				// the stored bytes themselves, with the clock's created value replaced by the placeholder
				shown := stored
				if raw, ok := got.Ann[key]; ok && !hadCreated {
					if masked := maskNow(got.Ann, key, hadCreated, t0, t1); masked[key] == nowPlaceholder {
						kq, _ := json.Marshal(key)
						vq, _ := json.Marshal(raw)
						pq, _ := json.Marshal(nowPlaceholder)
						shown = bytes.Replace(stored, append(append(kq, ':'), vq...), append(append(kq, ':'), pq...), 1)
					}
				}
				got.Ann = maskNow(got.Ann, key, hadCreated, t0, t1)
				// the descriptor's size, shifted by the length difference of the placeholder when the clock's value was masked
				size := desc.Size + int64(len(shown)-len(stored))
				obs = fmt.Sprintf("OK %s:%s:%s %s EV %s SIZE %d BYTES %s", common.Hex(desc.MediaType), common.Hex(desc.ArtifactType),
					showAnn(maskNow(desc.Annotations, key, hadCreated, t0, t1)), got.String(), ev, size, common.Hex(string(shown)))
				// the digest: the descriptor's own, or -- when the clock's value was masked -- that of the shown bytes
				dg := "-"
				if withDigest {
					dg = common.Hex(string(desc.Digest))
					if len(shown) != len(stored) || !bytes.Equal(shown, stored) {
						dg = common.Hex(sha(shown))
					}
				}
				obs += " DIGEST " + dg
			}
		}

		return projection{obs, got, gotMT, stored, parseErr, manifestPushes, blobPushes}
	}
	withDigest := run.Evaluations%40 == 0 // the modelled SHA-256 is slow: a sample
	pr := project(rec, desc, err, t0, t1, withDigest)
	obs, got, gotMT, stored, parseErr := pr.obs, pr.got, pr.gotMT, pr.stored, pr.parseErr
	manifestPushes, blobPushes := pr.manifestPushes, pr.blobPushes
	b01 := func(x bool) string {
		if x {
			return "1"
		}
		return "0"
	}
	modelLine := func(failAt int, entries []string, withDigest bool) string {
		fa := "-"
		if failAt >= 0 {
			fa = strconv.Itoa(failAt)
		}
		if withDigest {
			fa += "d"
		}
		return fmt.Sprintf("K %s %s %s %s %s %s %s %s %s %s %s %s", sp.Fn, b01(sp.Exists), keyKind(sp.Target), fa,
			common.Hex(sp.AT), showODesc(sp.Subject), showList(sp.Layers, sp.LayersNil), showAnn(sp.Ann), showODesc(sp.Config),
			showAnn(sp.ConfigAnn), strings.Join(append([]string{"S"}, entries...), ","), common.Hex(specJSON(sp)))
	}
	model := modelLine(sp.FailAt, storeEntries, withDigest)
	run.Case(id, model, obs)
	run.Count("fn_" + sp.Fn)
	run.Count("target_" + sp.Target + map[bool]string{true: "+exists", false: ""}[sp.Exists])
	run.Count("result_" + strings.SplitN(kind, ":", 2)[0])
	if len(sp.Prefill) > 0 {
		run.Count("prefilled")
	}
	if err == nil || len(rec.events) > 0 {
		run.Nontrivial(model)
	}
	if err == nil && parseErr == nil && run.Evaluations%8 == 0 {
		docCase(stored)
	}
	if err == nil {
		run.Sample(map[string]any{"fn": sp.Fn, "target": sp.Target, "artifactType": sp.AT, "descriptor": desc, "events": len(rec.events)})
	}

	// ---- oracle
	e := expect(sp)
	pushes := manifestPushes + blobPushes
	switch {
	case e.reject:
		if err == nil {
			fail("not-rejected", "%s(%q) must be rejected (invalid media type / subject for v1.0 / missing artifact type / unknown version) but succeeded: %v", sp.Fn, sp.AT, desc)
		} else if pushes != 0 {
			fail("reject-after-push", "%s(%q) rejected with %v after %d pushes", sp.Fn, sp.AT, err, pushes)
		} else if kind != "invalid-media-type" && kind != "unsupported" && kind != "missing-artifact-type" {
			fail("reject-kind", "%s(%q) rejected with an undocumented error: %v", sp.Fn, sp.AT, err)
		}
		return
	case e.badCreated || e.mayReject && kind == "invalid-datetime":
		if err == nil && goRFC3339(sp.Ann[key]) {
			fail("created-lenient", "%s: created=%q is not RFC 3339 (one of the leniencies of time.Parse) but the call succeeded: %v", sp.Fn, sp.Ann[key], desc)
		} else if err == nil {
			fail("bad-created-accepted", "%s: created=%q is malformed but the call succeeded: %v", sp.Fn, sp.Ann[key], desc)
		} else if kind != "invalid-datetime" && kind != "storage-error" {
			fail("bad-created-kind", "%s: created=%q malformed, error is %v", sp.Fn, sp.Ann[key], err)
		}
		if manifestPushes != 0 && err != nil {
			fail("bad-created-manifest-pushed", "%s: created=%q is malformed but a manifest was pushed", sp.Fn, sp.Ann[key])
		}
		return
	}
	if kind == "storage-error" {
		switch {
		case errors.Is(err, errInjected):
			if sp.FailAt < 0 || sp.FailAt >= rec.ops {
				fail("phantom-injected", "injected error without a fault")
			}
		case sp.Target == "file" && nameClash(sp):
			run.Count("file_duplicate_name") // the file store refused a taken file name: Pack reports it
		default:
			fail("unexpected-error", "%s(%q) on %s: valid input failed: %v", sp.Fn, sp.AT, sp.Target, err)
		}
		return
	}
	if err != nil {
		fail("unexpected-error", "%s(%q) on %s: valid input failed: %v", sp.Fn, sp.AT, sp.Target, err)
		return
	}
	if sp.FailAt >= 0 && sp.FailAt < rec.ops {
		fail("fault-swallowed", "%s on %s: storage operation %d failed but the call succeeded", sp.Fn, sp.Target, sp.FailAt)
		return
	}
	// digest / size / stored bytes
	if parseErr != nil {
		fail("stored-unreadable", "descriptor %v: stored content cannot be fetched/parsed: %v", desc, parseErr)
		return
	}
	h := sha256.Sum256(stored)
	if string(desc.Digest) != "sha256:"+hex.EncodeToString(h[:]) || desc.Size != int64(len(stored)) {
		fail("digest-size", "descriptor %v does not describe the %d stored bytes", desc, len(stored))
	}
	if desc.MediaType != gotMT || gotMT != map[string]string{"I": ocispec.MediaTypeImageManifest, "A": mtArtifactManifest}[e.want.Kind] {
		fail("media-type", "descriptor media type %q, manifest mediaType %q, want kind %s", desc.MediaType, gotMT, e.want.Kind)
	}
	lossy := false
	if got.String() != e.want.String() {
		if sp.nonUTF8() && got.String() == sanDoc(e.want).String() {
			// exactly the coercion of invalid UTF-8 by json.Marshal explains the difference
			lossy = true
			run.Count("non_utf8_lossy")
			fail("non-utf8-lossy", "%s: a caller string is not valid UTF-8; the stored manifest carries U+FFFD instead (descriptor and pushed blobs keep the raw bytes): manifest is %s, requested %s",
				sp.Fn, got.String(), e.want.String())
		} else {
			fail("manifest-fields", "manifest is %s, requested %s", got.String(), e.want.String())
		}
	}
	if !hadCreated && got.Ann[key] != nowPlaceholder {
		fail("created-missing", "no created timestamp of this call in the annotations: %q", got.Ann[key])
	}
	if desc.ArtifactType != e.descAT || showAnn(maskNow(desc.Annotations, key, hadCreated, t0, t1)) != showAnn(e.want.Ann) ||
		len(desc.URLs) != 0 || desc.Data != nil || desc.Platform != nil {
		fail("descriptor-fields", "descriptor artifactType=%q annotations=%v, want %q %v", desc.ArtifactType, desc.Annotations, e.descAT, e.want.Ann)
	}
	// the marshalled document is canonical: object keys of every annotations map are sorted
	if bad := unsortedAnnotations(stored); bad != "" {
		fail("annotations-not-canonical", "stored manifest lists annotation keys out of order: %s", bad)
	}
	// every invented blob is present
	for _, d := range e.invented {
		if isManifestType(d.MediaType) {
			// the caller typed the invented config as a manifest: a registry answers by digest within
			// its manifest namespace and may hold the same bytes under another manifest media type;
			// presence is then the target's own Exists (not judged further, see allBacked)
			if ok, xerr := inner.Exists(ctx, d); xerr != nil || !ok {
				fail("invented-blob-missing", "invented blob %s %s is not in the target: %v", d.MediaType, d.Digest, xerr)
			}
			continue
		}
		data, ferr := content.FetchAll(ctx, inner, d)
		if ferr != nil || string(data) != "{}" {
			fail("invented-blob-missing", "invented blob %s %s is not in the target: %v", d.MediaType, d.Digest, ferr)
		}
	}
	// the result can be copied when everything the caller supplied is there
	if allBacked(sp, true) && !lossy {
		run.Count("copy_checked")
		dst := memory.New()
		if cerr := oras.CopyGraph(ctx, inner, dst, desc, oras.DefaultCopyGraphOptions); cerr != nil {
			fail("not-copyable", "CopyGraph of the packed manifest fails: %v", cerr)
		} else {
			succ, serr := content.Successors(ctx, dst, desc)
			if serr != nil {
				fail("not-copyable", "successors in the copy: %v", serr)
			}
			for _, s := range succ {
				if strings.Contains(s.MediaType, "nondistributable") {
					continue // foreign layers are not copied by design
				}
				if ok, _ := dst.Exists(ctx, s); !ok {
					fail("not-copyable", "successor %s missing in the copy", s.Digest)
				}
			}
		}
	}
	// reproducible with a fixed created annotation
	if hadCreated {
		run.Count("determinism_checked")
		rec2 := &recorder{inner: inner, failAt: -1}
		var p2 content.Pusher = pusherOnly{rec2}
		if sp.Exists {
			p2 = fullStorage{rec2}
		}
		// history: the same call again on the same target, compared with the model started from the
		// store as the first call left it (what it newly pushed is now there)
		entries2 := append([]string{}, storeEntries...)
		for _, e := range rec.events {
			if e.kind == "P" && e.err == nil {
				x := fmt.Sprintf("%s:%s:%d", common.Hex(e.desc.MediaType), common.Hex(string(e.desc.Digest)), e.desc.Size)
				if t := e.desc.Annotations[ocispec.AnnotationTitle]; t != "" && sp.Target == "file" {
					x += ":" + common.Hex(t)
				}
				entries2 = append(entries2, x)
			}
		}
		t2 := time.Now()
		d2, err2 := callPack(sp, p2)
		pr2 := project(rec2, d2, err2, t2, time.Now(), withDigest)
		run.Case(run.NewID(), modelLine(-1, entries2, withDigest), pr2.obs)
		run.Count("history_second_call")
		if err2 == nil && (sp.Target == "memory" || sp.Target == "oci") {
			// idempotence on content-addressed stores: nothing is stored anew by the repeat
			for _, e := range rec2.events {
				if e.kind == "P" && e.err == nil {
					fail("repeat-call-pushed", "repeating the call stored %s %s again", e.desc.MediaType, e.desc.Digest)
				}
			}
			run.Count("idempotence_checked")
		}
		if err2 != nil && sp.Target == "file" && errors.Is(err2, file.ErrDuplicateName) &&
			(sp.Ann[ocispec.AnnotationTitle] != "" || sp.ConfigAnn[ocispec.AnnotationTitle] != "") {
			// the file store refuses to write a named file twice (not ErrAlreadyExists): repeating
			// the call on the same file store is not judged, the fresh-target repeats below are
			run.Count("file_repeat_refused")
		} else if err2 != nil || !reflect.DeepEqual(d2, desc) {
			fail("not-deterministic", "second call on the same target: %v %v, first %v", d2, err2, desc)
		}
		// Go maps carry no order: the same annotations inserted in another order (and into maps of
		// another capacity) must give the same bytes, hence the same descriptor
		rsp := *sp
		rsp.Ann = reinsert(sp.Ann)
		rsp.ConfigAnn = reinsert(sp.ConfigAnn)
		rsp.Layers = nil
		for _, l := range sp.Layers {
			l.Annotations = reinsert(l.Annotations)
			rsp.Layers = append(rsp.Layers, l)
		}
		d4, err4 := callPack(&rsp, pusherOnly{&recorder{inner: memory.New(), failAt: -1}})
		if err4 != nil || !reflect.DeepEqual(d4, desc) {
			fail("annotation-order-dependent", "same call with annotations inserted in another order: %v %v, first %v", d4, err4, desc)
		}
		otherKind := "memory"
		if sp.Target == "memory" && run.Evaluations%8 == 0 {
			otherKind = "oci" // a disk-backed target now and then (temp directories are slow)
		}
		other, cleanup2 := newTarget(otherKind)
		d3, err3 := callPack(sp, pusherOnly{&recorder{inner: other, failAt: -1}})
		cleanup2()
		if err3 != nil || !reflect.DeepEqual(d3, desc) {
			fail("not-deterministic", "same call on a fresh target: %v %v, first %v", d3, err3, desc)
		}
	}
}

func allBacked(sp *spec, count bool) bool {
	ok := func(d ocispec.Descriptor) bool { _, b := sp.Backed[string(d.Digest)]; return b }
	if sp.Config != nil && isManifestType(sp.Config.MediaType) {
		return false // a caller-supplied "config" that CopyGraph would walk as a manifest
	}
	if sp.Config == nil && (sp.Fn == "v10" || sp.Fn == "rc2") && isManifestType(sp.AT) {
		// the caller asked for a config blob "{}" typed as a manifest: present, but every graph
		// walk reads it as a manifest without config (caller inconsistency, not judged)
		if count {
			run.Count("copy_skipped_config_typed_as_manifest")
		}
		return false
	}
	for _, d := range sp.Layers {
		if !ok(d) || isManifestType(d.MediaType) {
			return false
		}
	}
	if sp.Subject != nil && !ok(*sp.Subject) {
		return false
	}
	if sp.Config != nil && !ok(*sp.Config) {
		return false
	}
	return true
}

// reinsert rebuilds a map by inserting the keys in descending order into a map of another capacity.
func reinsert(m map[string]string) map[string]string {
	if m == nil {
		return nil
	}
	keys := make([]string, 0, len(m))
	for k := range m {
		keys = append(keys, k)
	}
	sort.Sort(sort.Reverse(sort.StringSlice(keys)))
	out := make(map[string]string, 4*len(m)+7)
	for _, k := range keys {
		out[k] = m[k]
	}
	return out
}

// unsortedAnnotations walks the raw JSON and reports an "annotations" object whose keys are not
// in ascending order ("" when all are).
func unsortedAnnotations(data []byte) string {
	dec := json.NewDecoder(bytes.NewReader(data))
	var walk func(inAnn bool) string
	walk = func(inAnn bool) string {
		tok, err := dec.Token()
		if err != nil {
			return ""
		}
		switch d := tok.(type) {
		case json.Delim:
			switch d {
			case '{':
				prev, first := "", true
				for dec.More() {
					kt, err := dec.Token()
					if err != nil {
						return ""
					}
					k := kt.(string)
					if inAnn && !first && k <= prev {
						return fmt.Sprintf("%q after %q", k, prev)
					}
					prev, first = k, false
					if r := walk(k == "annotations"); r != "" {
						return r
					}
				}
				dec.Token()
			case '[':
				for dec.More() {
					if r := walk(false); r != "" {
						return r
					}
				}
				dec.Token()
			}
		}
		return ""
	}
	return walk(false)
}

// nameClash: a title Pack is asked to put on a blob it pushes itself (config, manifest) is also
// the name of another file the call meets (ground truth of the generator).
func nameClash(sp *spec) bool {
	ct, mt := sp.ConfigAnn[ocispec.AnnotationTitle], sp.Ann[ocispec.AnnotationTitle]
	if ct == "" && mt == "" {
		return false
	}
	if ct != "" && ct == mt {
		return true
	}
	taken := func(d ocispec.Descriptor) bool {
		t := d.Annotations[ocispec.AnnotationTitle]
		_, backed := sp.Backed[string(d.Digest)]
		return backed && t != "" && (t == ct || t == mt)
	}
	for _, l := range sp.Layers {
		if taken(l) {
			return true
		}
	}
	return sp.Config != nil && taken(*sp.Config)
}

// docCase: what encoding/json reads as mediaType / artifactType of a stored manifest document, against the
// model's readers of the document head (doc_media_type, doc_artifact_type) on the same bytes.
func docCase(stored []byte) {
	id := run.NewID()
	var top map[string]json.RawMessage
	obs := "ERR"
	if json.Unmarshal(stored, &top) == nil {
		field := func(k string) string {
			raw, ok := top[k]
			if !ok {
				return "NONE"
			}
			var v string
			if json.Unmarshal(raw, &v) != nil {
				return "ERR"
			}
			return common.Hex(v)
		}
		cfg := "NONE"
		if raw, ok := top["config"]; ok {
			var c struct {
				MediaType string `json:"mediaType"`
				Digest    string `json:"digest"`
				Size      int64  `json:"size"`
			}
			if json.Unmarshal(raw, &c) == nil {
				if c.Size < 0 {
					c.Size = 0 // the model's reader takes the run of digits after "size": (none for a negative number)
				}
				cfg = fmt.Sprintf("%s:%s:%d", common.Hex(c.MediaType), common.Hex(c.Digest), c.Size)
			}
		}
		obs = field("mediaType") + " " + field("artifactType") + " " + cfg
	}
	run.Case(id, "D "+common.Hex(string(stored)), obs)
	run.Count("document_head")
}
