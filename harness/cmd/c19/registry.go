package main

import (
	"crypto/sha256"
	"crypto/sha512"
	"encoding/hex"
	"encoding/json"
	"fmt"
	"io"
	"net/http"
	"net/http/httptest"
	"strconv"
	"strings"

	"oras.land/oras-go/v2/registry/remote"
)

// fakeRegistry is a minimal in-process OCI distribution endpoint for one repository,
// plugged in as the remote.Client of a remote.Repository (no sockets).  Blobs and
// manifests live in separate namespaces keyed by digest, as in a real registry.
type fakeRegistry struct {
	blobs     map[string][]byte
	manifests map[string]fakeManifest
	uploads   int
	// validate: like a real registry, refuse a manifest whose config / layers / blobs are not
	// present (MANIFEST_BLOB_UNKNOWN); foreign layers and the subject are exempt
	validate bool
}

type fakeManifest struct {
	data      []byte
	mediaType string
}

const fakeRepo = "/v2/verif/repo/"

func newFakeRegistry() *fakeRegistry {
	return &fakeRegistry{blobs: map[string][]byte{}, manifests: map[string]fakeManifest{}}
}

func (f *fakeRegistry) Do(req *http.Request) (*http.Response, error) {
	rec := httptest.NewRecorder()
	f.serve(rec, req)
	resp := rec.Result()
	resp.Request = req
	if req.Method == http.MethodHead {
		if cl := resp.Header.Get("Content-Length"); cl != "" {
			n, _ := strconv.ParseInt(cl, 10, 64)
			resp.ContentLength = n
		}
	}
	return resp, nil
}

func sha512of(data []byte) string {
	h := sha512.Sum512(data)
	return "sha512:" + hex.EncodeToString(h[:])
}

func sha(data []byte) string {
	h := sha256.Sum256(data)
	return "sha256:" + hex.EncodeToString(h[:])
}

func (f *fakeRegistry) serve(w http.ResponseWriter, r *http.Request) {
	p := r.URL.Path
	if !strings.HasPrefix(p, fakeRepo) {
		w.WriteHeader(http.StatusNotFound)
		return
	}
	rest := strings.TrimPrefix(p, fakeRepo)
	serveContent := func(data []byte, mt string) {
		w.Header().Set("Content-Type", mt)
		w.Header().Set("Docker-Content-Digest", sha(data))
		w.Header().Set("Content-Length", strconv.Itoa(len(data)))
		w.WriteHeader(http.StatusOK)
		if r.Method == http.MethodGet {
			w.Write(data)
		}
	}
	switch {
	case rest == "blobs/uploads/" && r.Method == http.MethodPost:
		f.uploads++
		w.Header().Set("Location", fmt.Sprintf("%sblobs/uploads/%d", fakeRepo, f.uploads))
		w.WriteHeader(http.StatusAccepted)
	case strings.HasPrefix(rest, "blobs/uploads/") && r.Method == http.MethodPut:
		data, _ := io.ReadAll(r.Body)
		dg := r.URL.Query().Get("digest")
		if dg != sha(data) && dg != sha512of(data) {
			w.WriteHeader(http.StatusBadRequest)
			return
		}
		f.blobs[dg] = data
		w.Header().Set("Docker-Content-Digest", dg)
		w.WriteHeader(http.StatusCreated)
	case strings.HasPrefix(rest, "blobs/") && (r.Method == http.MethodHead || r.Method == http.MethodGet):
		data, ok := f.blobs[strings.TrimPrefix(rest, "blobs/")]
		if !ok {
			w.WriteHeader(http.StatusNotFound)
			return
		}
		if strings.HasPrefix(rest, "blobs/sha512:") {
			w.Header().Set("Content-Type", "application/octet-stream")
			w.Header().Set("Docker-Content-Digest", sha512of(data))
			w.Header().Set("Content-Length", strconv.Itoa(len(data)))
			w.WriteHeader(http.StatusOK)
			if r.Method == http.MethodGet {
				w.Write(data)
			}
			return
		}
		serveContent(data, "application/octet-stream")
	case strings.HasPrefix(rest, "manifests/") && r.Method == http.MethodPut:
		data, _ := io.ReadAll(r.Body)
		ref := strings.TrimPrefix(rest, "manifests/")
		if strings.HasPrefix(ref, "sha256:") && ref != sha(data) {
			w.WriteHeader(http.StatusBadRequest)
			return
		}
		if f.validate {
			if missing := f.missingBlob(data); missing != "" {
				w.Header().Set("Content-Type", "application/json")
				w.WriteHeader(http.StatusBadRequest)
				fmt.Fprintf(w, `{"errors":[{"code":"MANIFEST_BLOB_UNKNOWN","message":"blob unknown to registry","detail":%q}]}`, missing)
				return
			}
		}
		f.manifests[sha(data)] = fakeManifest{data: data, mediaType: r.Header.Get("Content-Type")}
		var m struct {
			Subject *struct {
				Digest string `json:"digest"`
			} `json:"subject"`
		}
		if json.Unmarshal(data, &m) == nil && m.Subject != nil {
			w.Header().Set("OCI-Subject", m.Subject.Digest) // referrers API supported
		}
		w.Header().Set("Docker-Content-Digest", sha(data))
		w.WriteHeader(http.StatusCreated)
	case strings.HasPrefix(rest, "manifests/") && (r.Method == http.MethodHead || r.Method == http.MethodGet):
		m, ok := f.manifests[strings.TrimPrefix(rest, "manifests/")]
		if !ok {
			w.WriteHeader(http.StatusNotFound)
			return
		}
		serveContent(m.data, m.mediaType)
	default:
		w.WriteHeader(http.StatusNotFound)
	}
}

func newRegistryTarget() storage {
	repo, err := remote.NewRepository("registry.verif.test/verif/repo")
	if err != nil {
		panic(err)
	}
	repo.Client = newFakeRegistry()
	return repo
}

func (f *fakeRegistry) missingBlob(manifest []byte) string {
	type d struct {
		MediaType string `json:"mediaType"`
		Digest    string `json:"digest"`
	}
	var m struct {
		Config *d  `json:"config"`
		Layers []d `json:"layers"`
		Blobs  []d `json:"blobs"`
	}
	if json.Unmarshal(manifest, &m) != nil {
		return "unparsable manifest"
	}
	all := append(append([]d{}, m.Layers...), m.Blobs...)
	if m.Config != nil {
		all = append(all, *m.Config)
	}
	for _, x := range all {
		if strings.Contains(x.MediaType, "nondistributable") {
			continue
		}
		if _, ok := f.blobs[x.Digest]; !ok {
			return x.Digest
		}
	}
	return ""
}
