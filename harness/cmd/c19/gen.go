package main

import (
	"encoding/base64"
	"encoding/json"
	"fmt"
	"os"
	"strings"
	"time"

	"github.com/opencontainers/go-digest"
	ocispec "github.com/opencontainers/image-spec/specs-go/v1"
	oras "oras.land/oras-go/v2"
	"verifharness/common"
)

// ---------------------------------------------------------------- media types

const nameTail = "abcXYZ019!#$&-^_.+"

func longName(r *common.Rand, n int) string {
	if n <= 0 {
		return ""
	}
	var sb strings.Builder
	sb.WriteByte("aZ5"[r.Intn(3)])
	for i := 1; i < n; i++ {
		sb.WriteByte(nameTail[r.Intn(len(nameTail))])
	}
	return sb.String()
}

func randValidMediaType(r *common.Rand) string {
	pool := []string{"application/vnd.oci.image.layer.v1.tar", "application/octet-stream", "text/plain",
		"application/vnd.example+json", "a/b", "X/0", ocispec.MediaTypeEmptyJSON, ocispec.MediaTypeImageManifest,
		ocispec.MediaTypeImageConfig, oras.MediaTypeUnknownConfig, oras.MediaTypeUnknownArtifact, mtArtifactManifest}
	if r.Chance(1, 3) {
		return longName(r, 1+r.Intn(12)) + "/" + longName(r, 1+r.Intn(12))
	}
	if r.Chance(1, 10) {
		return longName(r, 127) + "/" + longName(r, 127)
	}
	return common.Pick(r, pool)
}

var invalidMediaTypes = []string{"application", "a//b", "a/b/c", "a/ b", "a/b\n", " a/b", "-a/b", "a/-", "a/b;q=1", "/", "a/", "/b",
	"\xc3\xa9/x", "a/b*", "a/b c", "a\\b", "a/b\x00", "A/B~", "a/b%2f", ".a/b", "a/+b/"}

func randInvalidMediaType(r *common.Rand) string {
	switch r.Intn(4) {
	case 0:
		return longName(r, 128) + "/" + longName(r, 3)
	case 1:
		return longName(r, 3) + "/" + longName(r, 128+r.Intn(3))
	default:
		return common.Pick(r, invalidMediaTypes)
	}
}

func mutate(r *common.Rand, s string, alphabet []byte) string {
	bs := []byte(s)
	c := alphabet[r.Intn(len(alphabet))]
	switch r.Intn(4) {
	case 0: // substitute
		if len(bs) > 0 {
			bs[r.Intn(len(bs))] = c
		}
	case 1: // insert
		i := r.Intn(len(bs) + 1)
		bs = append(bs[:i], append([]byte{c}, bs[i:]...)...)
	case 2: // delete
		if len(bs) > 0 {
			i := r.Intn(len(bs))
			bs = append(bs[:i], bs[i+1:]...)
		}
	default: // truncate or append
		if r.Bool() && len(bs) > 0 {
			bs = bs[:r.Intn(len(bs))]
		} else {
			bs = append(bs, c)
		}
	}
	return string(bs)
}

func allBytes() []byte {
	b := make([]byte, 256)
	for i := range b {
		b[i] = byte(i)
	}
	return b
}

func genMediaTypes() {
	r := run.Rand.Fork()
	// exhaustive over a small alphabet
	alpha := []byte("aZ0/+.!*\n")
	maxLen := run.Scale(5, 7)
	var rec func(prefix []byte)
	rec = func(prefix []byte) {
		mediaTypeCase(string(prefix))
		if len(prefix) == maxLen {
			return
		}
		for _, c := range alpha {
			rec(append(prefix, c))
		}
	}
	rec(nil)
	// boundary lengths
	for _, a := range []int{1, 2, 126, 127, 128, 129, 200} {
		for _, c := range []int{1, 2, 126, 127, 128, 129, 200} {
			mediaTypeCase(longName(r, a) + "/" + longName(r, c))
		}
	}
	for _, s := range invalidMediaTypes {
		mediaTypeCase(s)
	}
	// every byte at the first / inner / last position of each part
	for c := 0; c < 256; c++ {
		ch := string([]byte{byte(c)})
		for _, s := range []string{ch + "b/cd", "a" + ch + "/cd", "ab/" + ch + "d", "ab/c" + ch, "ab" + ch + "cd", "ab/cd" + ch, ch + "ab/cd"} {
			mediaTypeCase(s)
		}
	}
	// mutations of valid names
	n := run.Scale(12000, 1000000)
	all := allBytes()
	for i := 0; i < n; i++ {
		s := randValidMediaType(r)
		if r.Chance(2, 3) {
			s = mutate(r, s, all)
			if r.Chance(1, 4) {
				s = mutate(r, s, []byte("/+.-_ a0Z!"))
			}
		}
		mediaTypeCase(s)
	}
}

// ---------------------------------------------------------------- timestamps

func pick[T any](r *common.Rand, xs ...T) T { return xs[r.Intn(len(xs))] }

// randTime builds a timestamp from fields that are mostly in range.
func randTime(r *common.Rand) string {
	year := pick(r, 0, 1, 1900, 1970, 1999, 2000, 2023, 2024, 2100, 2400, 9999, r.Intn(10000))
	month := pick(r, 1, 2, 2, 2, 4, 6, 9, 11, 12, 1+r.Intn(12), 0, 13)
	day := pick(r, 1, 28, 29, 30, 31, 1+r.Intn(28), 0, 32)
	hour := pick(r, 0, 9, 12, 23, r.Intn(24), 24)
	minute := pick(r, 0, 59, r.Intn(60), 60)
	sec := pick(r, 0, 59, r.Intn(60), 60, 61)
	hs := fmt.Sprintf("%02d", hour)
	if r.Chance(1, 8) {
		hs = fmt.Sprintf("%d", hour)
	}
	frac := pick(r, "", "", ".1", ".123456789", ".000", ",5", ".1234567890123", ".", ",", ".a")
	tz := pick(r, "Z", "Z", "+00:00", "-07:00", "+23:59", "+24:00", "+24:60", "+25:00", "-00:61", "+0000", "z", "", "+07", "Z0", "+07:00Z",
		fmt.Sprintf("%s%02d:%02d", pick(r, "+", "-"), r.Intn(26), r.Intn(62)))
	return fmt.Sprintf("%04d-%02d-%02dT%s:%02d:%02d%s%s", year, month, day, hs, minute, sec, frac, tz)
}

var fixedTimes = []string{
	"2006-01-02T15:04:05Z", "2006-01-02T15:04:05+07:00", "2006-01-02T15:04:05.999999999-07:00", "2024-02-29T00:00:00Z",
	"2023-02-29T00:00:00Z", "1900-02-29T00:00:00Z", "2000-02-29T23:59:59Z", "2006-01-02T1:04:05Z", "2006-01-02T15:04:05,5Z",
	"2006-01-02T15:04:05+24:60", "2006-01-02T15:04:05+24:61", "2006-01-02T15:04:05+25:00", "2006-01-02t15:04:05z",
	"2006-01-02 15:04:05Z", "2006-01-02T15:04:60Z", "2006-01-02T24:00:00Z", "2006-13-02T15:04:05Z", "2006-00-02T15:04:05Z",
	"2006-01-00T15:04:05Z", "2006-04-31T15:04:05Z", "2006-01-02T15:04:05", "2006-01-02", "", "Z", "T", "now",
	"2006-01-02T15:04:05Z\n", "\n2006-01-02T15:04:05Z", " 2006-01-02T15:04:05Z", "2006-01-02T15:04:05Z ", "02006-01-02T15:04:05Z",
	"+006-01-02T15:04:05Z", "-006-01-02T15:04:05Z", "2006-01-02T15:04:05.Z", "2006-01-02T15:04:05.5", "2006-01-02T15:04:05.5+07:00",
	"2006-01-02T15:04:05+7:00", "2006-01-02T15:04:05+07-00", "2006-01-02T15:04:05*07:00", "2006-1-02T15:04:05Z", "2006-01-2T15:04:05Z",
	"2006-01-02T15:4:05Z", "2006-01-02T15:04:5Z", "2006-01-02T015:04:05Z", "20060102T150405Z", "Mon Jan _2 15:04:05 2006",
}

func genTimes() {
	r := run.Rand.Fork()
	for _, s := range fixedTimes {
		timeCase(s)
	}
	alpha := []byte("0129:-+TZtz., a/")
	// every single-position substitution / deletion / insertion over the alphabet of some base strings
	bases := []string{"2006-01-02T15:04:05Z", "2024-02-29T23:59:59.5+07:30", "1999-12-31T9:00:00,25-24:60", "2000-02-29T00:00:00+00:00"}
	for _, bstr := range bases {
		for i := 0; i <= len(bstr); i++ {
			for _, c := range alpha {
				timeCase(bstr[:i] + string(c) + bstr[i:])
				if i < len(bstr) {
					timeCase(bstr[:i] + string(c) + bstr[i+1:])
				}
			}
			if i < len(bstr) {
				timeCase(bstr[:i] + bstr[i+1:])
				timeCase(bstr[:i])
			}
		}
	}
	// all month/day/year-class combinations
	for _, y := range []int{1900, 2000, 2023, 2024, 2100, 0, 4, 100, 400} {
		for m := 0; m <= 13; m++ {
			for d := 0; d <= 32; d++ {
				timeCase(fmt.Sprintf("%04d-%02d-%02dT00:00:00Z", y, m, d))
			}
		}
	}
	for h := 0; h <= 25; h++ {
		for m := 0; m <= 61; m++ {
			timeCase(fmt.Sprintf("2006-01-02T15:04:05+%02d:%02d", h, m))
			timeCase(fmt.Sprintf("2006-01-02T15:04:05.5-%02d:%02d", h, m))
			timeCase(fmt.Sprintf("2006-01-02T%02d:%02d:%02dZ", h, m, m))
		}
	}
	n := run.Scale(12000, 1000000)
	all := allBytes()
	for i := 0; i < n; i++ {
		s := randTime(r)
		if r.Chance(1, 2) {
			s = mutate(r, s, alpha)
		}
		if r.Chance(1, 10) {
			s = mutate(r, s, all)
		}
		timeCase(s)
	}
}

func randCreated(r *common.Rand) string {
	switch r.Intn(6) {
	case 0:
		return common.Pick(r, fixedTimes)
	case 1:
		return mutate(r, randTime(r), []byte("0129:-+TZtz., a/"))
	default:
		return pick(r, "2006-01-02T15:04:05Z", "2024-02-29T23:59:59.5+07:30", "1999-12-31T9:00:00,25-24:60", "2021-07-01T12:00:00Z")
	}
}

// ---------------------------------------------------------------- pack calls

var annKeys = []string{"k", "k1", "k.", "org.example.key", "", "a b", "üñï", "io.verif/x", "org.opencontainers.image.source",
	"org.opencontainers.image.ref.name"}
var annVals = []string{"", "v", "hello world", "\"quoted\"", "<a&b>", "line1\nline2", "☃", "{}", "2006-01-02T15:04:05Z", "a=b;c:d,e",
	"tab\there\r\b\f", "back\\slash/\x01\x1f\x7f", "sep\u2028and\u2029", "😀 é \uFFFD", "</script>"}

func randAnn(r *common.Rand, fn string, allowCreated bool) map[string]string {
	switch r.Intn(4) {
	case 0:
		return nil
	case 1:
		if !allowCreated {
			return map[string]string{}
		}
	}
	m := map[string]string{}
	n := r.Intn(4)
	for i := 0; i < n; i++ {
		m[common.Pick(r, annKeys)] = common.Pick(r, annVals)
	}
	if allowCreated {
		if r.Chance(3, 5) {
			m[createdKey(fn)] = randCreated(r)
		}
		if r.Chance(1, 8) { // the other function's key is an ordinary annotation
			other := ocispec.AnnotationCreated
			if fn != "art" {
				other = keyArtifactCreated
			}
			m[other] = pick(r, "2006-01-02T15:04:05Z", "not a time")
		}
	}
	return m
}

var blobMediaTypes = []string{"application/vnd.oci.image.layer.v1.tar", "application/octet-stream", "text/plain",
	"application/vnd.example.thing.v1+json", "application/vnd.oci.image.layer.nondistributable.v1.tar"}

// randBlob returns a descriptor of real content; backed says whether the content is put into the target.
func randBlob(r *common.Rand, sp *spec, mt string, backed bool) ocispec.Descriptor {
	data := []byte(fmt.Sprintf("blob-%d-%s", r.Intn(1000), strings.Repeat("x", r.Intn(20))))
	if r.Chance(1, 6) || isManifestType(mt) {
		data = []byte("{}") // stores parse content pushed under a manifest media type
	}
	d := descOf(mt, data)
	if r.Chance(1, 8) && string(data) != "{}" {
		d = descOf512(mt, data)
		run.Count("sha512_descriptor")
	}
	if backed {
		sp.Backed[string(d.Digest)] = string(data)
	}
	if r.Chance(1, 3) {
		d.Annotations = randAnn(r, "", false)
	}
	if backed && sp.Target == "file" && r.Chance(1, 2) && !isManifestType(mt) {
		// a named file of the file store (unique name per digest: the store refuses a second name
		// for other content, and the same content under two names is restored by the store itself)
		if d.Annotations == nil {
			d.Annotations = map[string]string{}
		}
		d.Annotations[ocispec.AnnotationTitle] = "blob-" + string(d.Digest)[7:19] + pick(r, ".bin", ".json", "")
		run.Count("file_named_blob")
	}
	if r.Chance(1, 8) {
		d.URLs = []string{"https://example.com/" + longName(r, 4)}
		if r.Bool() {
			d.URLs = append(d.URLs, "", "https://example.com/?a=1&b=<2>")
		}
	}
	if r.Chance(1, 10) {
		d.Platform = &ocispec.Platform{Architecture: "amd64", OS: "linux"}
		if r.Bool() {
			d.Platform = &ocispec.Platform{Architecture: "arm64", OS: "windows", OSVersion: "10.0.17763", OSFeatures: []string{"win32k", "a\"b"}, Variant: "v8"}
		}
	}
	if r.Chance(1, 10) {
		d.ArtifactType = "application/vnd.example.at"
	}
	if r.Chance(1, 12) && len(data) < 40 {
		d.Data = data
	}
	return d
}

func isManifestType(mt string) bool {
	switch mt {
	case ocispec.MediaTypeImageManifest, ocispec.MediaTypeImageIndex, mtArtifactManifest,
		"application/vnd.docker.distribution.manifest.v2+json", "application/vnd.docker.distribution.manifest.list.v2+json":
		return true
	}
	return false
}

const emptyIndex = `{"schemaVersion":2,"mediaType":"application/vnd.oci.image.index.v1+json","manifests":[]}`

func randSpec(r *common.Rand) *spec {
	sp := &spec{Backed: map[string]string{}, FailAt: -1}
	sp.Fn = pick(r, "v10", "v11", "v11", "v11", "rc2", "art", "v10")
	if r.Chance(1, 60) {
		sp.Fn = "vbad"
	}
	sp.Target = pick(r, "memory", "memory", "oci", "file", "registry")
	sp.Exists = r.Chance(2, 3)
	backed := r.Chance(3, 5)
	// artifact type
	switch r.Intn(10) {
	case 0, 1:
		sp.AT = ""
	case 2:
		sp.AT = randInvalidMediaType(r)
	case 3:
		sp.AT = mutate(r, randValidMediaType(r), []byte("/+.-_ a0Z!*\n"))
	default:
		sp.AT = randValidMediaType(r)
	}
	// config
	if r.Chance(2, 5) {
		mt := randValidMediaType(r)
		if r.Chance(1, 8) {
			mt = randInvalidMediaType(r)
		} else if r.Chance(1, 6) {
			mt = ocispec.MediaTypeEmptyJSON
		}
		if r.Chance(1, 12) {
			mt = "" // Pack (rc2) passes it through; PackManifest rejects it
			run.Count("config_empty_media_type")
		}
		d := randBlob(r, sp, mt, backed)
		sp.Config = &d
	}
	if r.Chance(1, 2) {
		sp.ConfigAnn = randAnn(r, "", false)
	}
	// layers
	switch r.Intn(5) {
	case 0:
		sp.LayersNil = true
	case 1:
		sp.Layers = []ocispec.Descriptor{}
	default:
		n := 1 + r.Intn(4)
		for i := 0; i < n; i++ {
			sp.Layers = append(sp.Layers, randBlob(r, sp, common.Pick(r, blobMediaTypes), backed))
		}
		if r.Chance(1, 5) { // the same layer twice
			sp.Layers = append(sp.Layers, sp.Layers[0])
		}
	}
	// subject
	if r.Chance(1, 3) {
		d := descOf(ocispec.MediaTypeImageIndex, []byte(emptyIndex))
		if backed {
			sp.Backed[string(d.Digest)] = emptyIndex
		}
		if r.Chance(1, 3) {
			d.Annotations = randAnn(r, "", false)
		}
		sp.Subject = &d
	}
	sp.Ann = randAnn(r, sp.Fn, true)
	// content already in the target
	if r.Chance(1, 2) {
		n := 1 + r.Intn(3)
		for i := 0; i < n; i++ {
			mt := pick(r, ocispec.MediaTypeEmptyJSON, oras.MediaTypeUnknownConfig, sp.AT, "application/other", randValidMediaType(r))
			c := pick(r, "{}", "{}", "{}", "other content", "")
			if !rfc6838(mt) {
				mt = "application/other"
			}
			if isManifestType(mt) {
				c = "{}"
			}
			sp.Prefill = append(sp.Prefill, prefill{MediaType: mt, Content: c})
		}
	}
	if r.Chance(1, 6) {
		sp.FailAt = r.Intn(4)
		sp.FaultErr = pick(r, "", "", "notfound", "dupname", "closed", "unsupported")
	}
	// file store: Pack's own blobs as named files (title annotation on the config / the manifest);
	// the name is free, or that of a backed layer (same content: found by digest; other content:
	// the store refuses the push with ErrDuplicateName)
	if sp.Target == "file" && r.Chance(1, 3) {
		name := fmt.Sprintf("own-%d.json", r.Intn(3))
		for _, l := range sp.Layers {
			if t := l.Annotations[ocispec.AnnotationTitle]; t != "" && r.Chance(1, 2) {
				name = t
			}
		}
		if r.Chance(3, 4) {
			if sp.ConfigAnn == nil {
				sp.ConfigAnn = map[string]string{}
			}
			sp.ConfigAnn[ocispec.AnnotationTitle] = name
			run.Count("file_titled_config")
		}
		if r.Chance(1, 3) {
			if sp.Ann == nil {
				sp.Ann = map[string]string{}
			}
			sp.Ann[ocispec.AnnotationTitle] = pick(r, name, "manifest.json")
			run.Count("file_titled_manifest")
		}
	}
	// strings that are not valid UTF-8 (Go strings are byte strings)
	if r.Chance(1, 10) {
		bad := func() string { return pick(r, "\xff", "\xfe", "\xc0\x80", "\xed\xa0\x80", "\xe2\x98", "\x80") }
		switch r.Intn(4) {
		case 3: // inside a caller-supplied descriptor
			if len(sp.Layers) > 0 {
				l := &sp.Layers[r.Intn(len(sp.Layers))]
				switch r.Intn(3) {
				case 0:
					l.MediaType = "application/x" + bad()
				case 1:
					l.Annotations = map[string]string{"lk": "lv" + bad()}
				default:
					l.URLs = []string{"https://example.com/" + bad()}
				}
			} else if sp.Config != nil {
				sp.Config.ArtifactType = "cfg/at" + bad()
			} else {
				sp.AT = "a/b" + bad()
			}
		case 0:
			base := "a/b"
			if sp.AT != "" && r.Bool() {
				base = sp.AT
			}
			i := r.Intn(len(base) + 1)
			sp.AT = base[:i] + bad() + base[i:]
		case 1:
			if sp.Ann == nil {
				sp.Ann = map[string]string{}
			}
			sp.Ann["nk"+bad()] = pick(r, "v", "v"+bad())
			if r.Bool() {
				sp.Ann["plain"] = "x" + bad() + "y"
			}
		default:
			sp.ConfigAnn = map[string]string{"ck" + bad(): "cv" + bad()}
		}
		run.Count("non_utf8_input")
	}
	return sp
}

// enumNonUTF8: the classes of F1 deterministically (every packer, three target kinds).
func enumNonUTF8() {
	for _, fn := range []string{"v10", "v11", "rc2", "art"} {
		for _, tg := range []string{"memory", "oci", "registry", "file"} {
			for k := 0; k < 4; k++ {
				sp := &spec{Fn: fn, Target: tg, Exists: true, FailAt: -1, AT: "application/vnd.example.thing", Backed: map[string]string{},
					Ann: map[string]string{createdKey(fn): "2021-07-01T12:00:00Z"}}
				switch k {
				case 0:
					sp.AT = "a\xff/b"
				case 1:
					sp.Ann["k\xff"] = "v\xfe"
				case 2:
					sp.ConfigAnn = map[string]string{"c\xfe": "\xff"}
				case 3:
					sp.AT = "application/vnd.ex\xc3\xa9" // valid UTF-8, not RFC 6838
				}
				packCase(sp)
				run.Count("non_utf8_input")
			}
		}
	}
}

// enumFileTitles: Pack's own blobs as named files of a file store, deterministically.
func enumFileTitles() {
	empty := descOf("application/octet-stream", []byte("{}"))
	empty.Annotations = map[string]string{ocispec.AnnotationTitle: "empty.json"}
	other := descOf("application/octet-stream", []byte("other content"))
	other.Annotations = map[string]string{ocispec.AnnotationTitle: "other.bin"}
	backing := map[string]string{string(empty.Digest): "{}", string(other.Digest): "other content"}
	for _, fn := range []string{"v10", "v11", "rc2", "art"} {
		for _, ex := range []bool{false, true} {
			for _, ct := range []string{"", "free.json", "empty.json", "other.bin"} {
				for _, mt := range []string{"", "manifest.json", "free.json", "other.bin"} {
					for li := 0; li < 2; li++ {
						sp := &spec{Fn: fn, Target: "file", Exists: ex, FailAt: -1, AT: "application/vnd.example.thing", Backed: backing,
							Layers: []ocispec.Descriptor{empty, other}, Ann: map[string]string{createdKey(fn): "2021-07-01T12:00:00Z"}}
						if li == 1 {
							sp.Layers = []ocispec.Descriptor{other}
						}
						if ct != "" {
							sp.ConfigAnn = map[string]string{ocispec.AnnotationTitle: ct, "k": "v"}
						}
						if mt != "" {
							sp.Ann[ocispec.AnnotationTitle] = mt
						}
						packCase(sp)
						run.Count("enumerated_file_titles")
					}
				}
			}
		}
	}
}

// ---------------------------------------------------------------- json string coercion

func utf8Case(s string) {
	jsonStringCase(s)
	id := run.NewID()
	js, err := json.Marshal(s)
	var back string
	if err == nil {
		err = json.Unmarshal(js, &back)
	}
	obs := common.Hex(back)
	if err != nil {
		obs = "ERR"
	}
	run.Case(id, "U "+common.Hex(s), obs)
	if back != s {
		run.Count("utf8_coerced")
		run.Nontrivial("U:" + s)
	} else {
		run.Count("utf8_unchanged")
	}
}

// jsonStringCase: json.Marshal of a Go string (escaping, coercion) against json_string of the model;
// base64Case: base64.StdEncoding (the []byte Data field) against base64 of the model.
func jsonStringCase(s string) {
	id := run.NewID()
	js, err := json.Marshal(s)
	obs := common.Hex(string(js))
	if err != nil {
		obs = "ERR"
	}
	run.Case(id, "J "+common.Hex(s), obs)
	run.Count("json_string")
	if len(js) != len(s)+2 {
		run.Nontrivial("J:" + s)
	}
	id = run.NewID()
	run.Case(id, "B "+common.Hex(s), common.Hex(base64.StdEncoding.EncodeToString([]byte(s))))
	run.Count("base64")
}

// formatCase: time.Date(...).Format(time.RFC3339) of a civil UTC time against format_rfc3339_utc;
// a civil time the runtime would normalise (31 February, hour 24) is INVALID for the model.
func formatCase(y, mo, d, h, mi, s int) {
	id := run.NewID()
	t := time.Date(y, time.Month(mo), d, h, mi, s, 0, time.UTC)
	obs := "INVALID"
	if t.Year() == y && int(t.Month()) == mo && t.Day() == d && t.Hour() == h && t.Minute() == mi && t.Second() == s && y >= 0 && y <= 9999 {
		v := t.Format(time.RFC3339)
		obs = common.Hex(v)
		run.Count("format_valid")
		// what Pack would write for this instant passes Pack's own validation
		if ok, err := createdAccepted(v); !ok {
			run.OracleFail(id, "clock-value-rejected", fmt.Sprintf("time %v formats to %q, which the created validation refuses: %v", t, v, err),
				map[string]string{"op": "F", "civil": fmt.Sprintf("%d %d %d %d %d %d", y, mo, d, h, mi, s)})
		}
	} else {
		run.Count("format_invalid")
	}
	run.Case(id, fmt.Sprintf("F %d %d %d %d %d %d", y, mo, d, h, mi, s), obs)
}

func genFormats() {
	r := run.Rand.Fork()
	for _, y := range []int{0, 1, 4, 99, 100, 400, 999, 1000, 1900, 1970, 2000, 2023, 2024, 2100, 9999} {
		for mo := 1; mo <= 12; mo++ {
			for _, d := range []int{1, 9, 10, 28, 29, 30, 31} {
				formatCase(y, mo, d, 0, 0, 0)
			}
		}
	}
	for h := 0; h <= 24; h++ {
		formatCase(2021, 7, 1, h, h*2, h*2+11)
	}
	n := run.Scale(3000, 100000)
	for i := 0; i < n; i++ {
		formatCase(pick(r, r.Intn(10000), 1969+r.Intn(100)), 1+r.Intn(12), 1+r.Intn(31), r.Intn(24), r.Intn(60), r.Intn(60))
	}
}

// annObjectCase: json.Marshal of a map[string]string against json_ann of the model, and the pairs a
// token-wise decode of those bytes yields (document order) against read_obj of the model.
func annObjectCase(m map[string]string) {
	id := run.NewID()
	js, err := json.Marshal(m)
	obs := "ERR"
	if err == nil {
		dec := json.NewDecoder(strings.NewReader(string(js)))
		var ps []string
		tok, _ := dec.Token()
		if d, ok := tok.(json.Delim); ok && d == '{' {
			for dec.More() {
				k, _ := dec.Token()
				v, _ := dec.Token()
				ps = append(ps, common.Hex(k.(string))+"="+common.Hex(v.(string)))
			}
		}
		back := "-"
		if len(ps) > 0 {
			back = strings.Join(ps, ";")
		}
		obs = common.Hex(string(js)) + " " + back
	}
	run.Case(id, "A "+showAnn(m), obs)
	run.Count("ann_object")
}

func genAnnObjects() {
	r := run.Rand.Fork()
	annObjectCase(map[string]string{})
	annObjectCase(map[string]string{"": ""})
	n := run.Scale(1500, 50000)
	for i := 0; i < n; i++ {
		m := map[string]string{}
		k := r.Intn(5)
		for j := 0; j < k; j++ {
			key := pick(r, common.Pick(r, annKeys), common.Pick(r, annVals), "k\xff", "k\xfe", "a\"b", "z"+string([]byte{byte(r.Intn(256))}))
			m[key] = pick(r, common.Pick(r, annVals), "v\xff\xfe", string([]byte{byte(r.Intn(256)), byte(r.Intn(256))}))
		}
		annObjectCase(m)
	}
}

// digestCase: digest.FromBytes(..).String() against the modelled SHA-256.
func digestCase(s string) {
	id := run.NewID()
	run.Case(id, "S "+common.Hex(s), common.Hex(digest.FromBytes([]byte(s)).String()))
	run.Count("sha256")
}

func genDigests() {
	r := run.Rand.Fork()
	for _, n := range []int{0, 1, 2, 3, 54, 55, 56, 57, 63, 64, 65, 118, 119, 120, 127, 128, 129, 200, 1000} {
		digestCase(strings.Repeat("a", n))
		b := make([]byte, n)
		for j := range b {
			b[j] = byte(r.Intn(256))
		}
		digestCase(string(b))
	}
	n := run.Scale(150, 5000)
	for i := 0; i < n; i++ {
		b := make([]byte, r.Intn(300))
		for j := range b {
			b[j] = byte(r.Intn(256))
		}
		digestCase(string(b))
	}
}

func genUTF8() {
	r := run.Rand.Fork()
	alpha := []byte{'a', 0x7f, 0x80, 0xbf, 0xc0, 0xc2, 0xe0, 0xa0, 0x9f, 0xed, 0xef, 0xf0, 0x90, 0x8f, 0xf4, 0xf5, 0xff}
	maxLen := run.Scale(3, 4)
	var rec func(prefix []byte)
	rec = func(prefix []byte) {
		utf8Case(string(prefix))
		if len(prefix) == maxLen {
			return
		}
		for _, c := range alpha {
			rec(append(prefix, c))
		}
	}
	rec(nil)
	n := run.Scale(5000, 200000)
	for i := 0; i < n; i++ {
		l := 1 + r.Intn(8)
		b := make([]byte, l)
		for j := range b {
			if r.Chance(2, 3) {
				b[j] = alpha[r.Intn(len(alpha))]
			} else {
				b[j] = byte(r.Intn(256))
			}
		}
		utf8Case(string(b))
	}
	for c := 0; c < 256; c++ {
		utf8Case("a" + string([]byte{byte(c)}) + "z")
		utf8Case(string([]byte{byte(c)}))
	}
	for _, s := range []string{"é☃😀", "\xf0\x9f\x98", "\xf4\x90\x80\x80", "\xe0\x9f\xbf", "\xed\x9f\xbf", "\xed\xa0\x80", "\xef\xbf\xbd", "\u2028<>&"} {
		utf8Case(s)
	}
}

func genPacks() {
	r := run.Rand.Fork()
	n := run.Scale(2500, 100000)
	for i := 0; i < n; i++ {
		sp := randSpec(r)
		// histories: a few different calls one after the other on the same target (not the file
		// store, whose names would have to be tracked across calls by the oracle)
		if chain == nil && sp.Target != "file" && r.Chance(1, 5) {
			startChain(sp.Target)
		}
		packCase(sp)
		if chain != nil && (len(chain.prev) >= 4 || r.Chance(1, 3)) {
			endChain()
		}
	}
	endChain()
}

// enumFaults (both tiers): every target kind x every fault position x every fault error class on the
// calls that issue the most storage operations, with valid inputs.
func enumFaults() {
	layer := descOf("application/octet-stream", []byte("layer-content"))
	cfg := descOf("application/vnd.example.config.v1+json", []byte("cfg"))
	backing := map[string]string{string(layer.Digest): "layer-content", string(cfg.Digest): "cfg"}
	for _, tg := range []string{"memory", "oci", "file", "registry"} {
		for _, ex := range []bool{false, true} {
			for _, fn := range []string{"v10", "v11", "rc2", "art"} {
				for ci := 0; ci < 2; ci++ {
					for li := 0; li < 2; li++ {
						for fa := -1; fa <= 4; fa++ {
							for fi, fe := range []string{"", "notfound", "dupname", "closed", "unsupported"} {
								if fa < 0 && fe != "" {
									continue
								}
								if !run.Thorough() && fi >= 3 && (ci != 0 || li != 0) {
									continue // quick: the two rarer error classes only on the plain option set
								}
								sp := &spec{Fn: fn, Target: tg, Exists: ex, FailAt: fa, FaultErr: fe, AT: "application/vnd.example.thing", Backed: backing,
									Ann: map[string]string{createdKey(fn): "2021-07-01T12:00:00Z"}}
								if ci == 1 {
									sp.Config = &cfg
								}
								if li == 1 {
									sp.Layers = []ocispec.Descriptor{layer}
								} else {
									sp.LayersNil = true
								}
								packCase(sp)
								run.Count("enumerated_faults")
							}
						}
					}
				}
			}
		}
	}
}

// created values of the enumeration: absent, valid, each leniency of time.Parse on its own
// (one-digit hour; comma; offset hour 24 with a legal minute; offset minute 60 with a legal
// hour, both signs), malformed.
var enumCreated = []string{"", "2021-07-01T12:00:00Z", "2021-07-01T12:00:00.25-07:30", "2021-07-01T1:00:00Z", "2021-07-01T12:00:00,5Z",
	"2021-07-01T12:00:00+24:00", "2021-07-01T12:00:00+22:60", "2021-07-01T12:00:00-00:60", "2021-07-01T12:00:00-24:59", "yesterday"}

// enumPacks: the full product of the option classes the property quantifies over (small scope).
// quick: memory target, no faults; thorough: every target kind and every fault position.
func enumPacks() {
	targets := []string{"memory"}
	fails := []int{-1}
	if run.Thorough() {
		targets = []string{"memory", "oci", "file", "registry"}
		fails = []int{-1, 0, 1, 2, 3}
	}
	defer enumFaults()
	layer := descOf("application/octet-stream", []byte("layer-content"))
	subjectD := descOf(ocispec.MediaTypeImageIndex, []byte(emptyIndex))
	cfgs := []*ocispec.Descriptor{nil, {}, {}, {}}
	*cfgs[1] = descOf("application/vnd.example.config.v1+json", []byte("cfg"))
	*cfgs[2] = descOf(ocispec.MediaTypeEmptyJSON, []byte("{}"))
	*cfgs[3] = descOf("bad type", []byte("cfg"))
	backing := map[string]string{string(layer.Digest): "layer-content", string(subjectD.Digest): emptyIndex,
		string(cfgs[1].Digest): "cfg", string(cfgs[2].Digest): "{}"}
	for _, fn := range []string{"v10", "v11", "vbad", "rc2", "art"} {
		for _, tg := range targets {
			if run.Thorough() && tg != "memory" {
				fails = []int{-1, 1}
			} else if run.Thorough() {
				fails = []int{-1, 0, 1, 2, 3}
			}
			for _, ex := range []bool{false, true} {
				for _, cfg := range cfgs {
					for li := 0; li < 3; li++ {
						for si := 0; si < 2; si++ {
							for _, at := range []string{"", "application/vnd.example.thing", "not a type", ocispec.MediaTypeImageManifest} {
								for ci, created := range enumCreated {
									// the leniency variants of created only on the plain option set
									if ci >= 4 && (li != 0 || si != 0) {
										continue
									}
									for pi := 0; pi < 3; pi++ {
										if ci >= 4 && pi != 0 {
											continue
										}
										for _, fa := range fails {
											sp := &spec{Fn: fn, Target: tg, Exists: ex, FailAt: fa, AT: at, Config: cfg, Backed: backing}
											switch li {
											case 0:
												sp.LayersNil = true
											case 1:
												sp.Layers = []ocispec.Descriptor{}
											default:
												sp.Layers = []ocispec.Descriptor{layer}
											}
											if si == 1 {
												d := subjectD
												sp.Subject = &d
											}
											if created != "" {
												sp.Ann = map[string]string{createdKey(fn): created, "k": "v"}
											}
											switch pi {
											case 1:
												sp.Prefill = []prefill{{MediaType: ocispec.MediaTypeEmptyJSON, Content: "{}"}}
											case 2:
												sp.Prefill = []prefill{{MediaType: "application/other", Content: "{}"}}
											}
											packCase(sp)
											run.Count("enumerated")
										}
									}
								}
							}
						}
					}
				}
			}
		}
	}
}

// ---------------------------------------------------------------- main

func main() {
	// self-test of the oracle's raw-JSON walker
	if unsortedAnnotations([]byte(`{"config":{"annotations":{"b":"1","a":"2"}},"annotations":{"a":"1"}}`)) == "" ||
		unsortedAnnotations([]byte(`{"z":1,"a":{"annotations":{"a":"1","b":"2"}},"layers":[{"annotations":{"":"0","k":"1","k1":"2"}}]}`)) != "" {
		panic("unsortedAnnotations self-test")
	}
	// a non-UTC local zone: a created value produced without .UTC() then shows an offset
	time.Local = time.FixedZone("VERIF", 3*3600+1800)
	run = common.Start("C19")
	run.Rule = "distinct pack calls that pushed or succeeded + distinct accepted media-type and timestamp strings"
	if run.Replay != "" {
		for _, c := range common.ReadReplay(run.Replay) {
			switch c["op"] {
			case "M":
				mediaTypeCase(common.UnHex(c["hex"]))
			case "T":
				timeCase(common.UnHex(c["hex"]))
			case "K":
				var sp spec
				if err := json.Unmarshal([]byte(c["spec"]), &sp); err != nil {
					panic(err)
				}
				if sp.Backed == nil {
					sp.Backed = map[string]string{}
				}
				sp.decodeHex()
				if len(sp.Prev) > 0 { // a call of a history: replay its predecessors on one target first
					startChain(sp.Target)
					for _, pj := range sp.Prev {
						var ps spec
						if err := json.Unmarshal([]byte(pj), &ps); err != nil {
							panic(err)
						}
						if ps.Backed == nil {
							ps.Backed = map[string]string{}
						}
						ps.decodeHex()
						packCase(&ps)
					}
					sp.Prev = nil
					packCase(&sp)
					endChain()
					continue
				}
				packCase(&sp)
			case "D":
				docCase([]byte(common.UnHex(c["hex"])))
			case "S":
				digestCase(common.UnHex(c["hex"]))
			case "A":
				m := map[string]string{}
				if c["ann"] != "-" {
					for _, kv := range strings.Split(c["ann"], ";") {
						p := strings.SplitN(kv, "=", 2)
						m[common.UnHex(p[0])] = common.UnHex(p[1])
					}
				}
				annObjectCase(m)
			case "U", "J", "B":
				utf8Case(common.UnHex(c["hex"]))
			case "L":
				parseCase(common.UnHex(c["hex"]))
			case "F":
				var y, mo, d, h, mi, s int
				fmt.Sscanf(c["civil"], "%d %d %d %d %d %d", &y, &mo, &d, &h, &mi, &s)
				formatCase(y, mo, d, h, mi, s)
			}
		}
		run.Finish()
		return
	}
	enumPacks()
	enumNonUTF8()
	enumFileTitles()
	genPacks()
	genTimes()
	genFormats()
	genDigests()
	genAnnObjects()
	genUTF8()
	genMediaTypes()
	floors()
	run.Finish()
}

// floors: a run in which a stream or a branch produced nothing must not pass silently.
func floors() {
	want := map[string]int{"result_ok": 500, "result_storage-error": 100, "result_invalid-datetime": 50, "result_invalid-media-type": 50,
		"result_unsupported": 20, "result_missing-artifact-type": 20, "target_memory": 50, "target_oci": 50, "target_file": 50,
		"target_registry": 50, "target_oci+exists": 50, "target_file+exists": 50, "target_registry+exists": 50, "copy_checked": 300,
		"determinism_checked": 300, "history_second_call": 300, "history_chained_call": 150, "history_order_checked": 30, "idempotence_checked": 200, "registry_validating": 50, "file_named_blob": 50, "file_titled_config": 30, "file_titled_manifest": 10, "file_duplicate_name": 20, "enumerated_file_titles": 200, "prefilled": 300, "non_utf8_input": 50, "sha512_descriptor": 50, "config_empty_media_type": 10,
		"enumerated": 1000, "enumerated_faults": 1000, "time_accepted": 1000, "parse_accepted": 1000, "parse_rejected": 1000, "time_rejected": 1000, "mediatype_valid": 1000,
		"mediatype_invalid": 1000, "utf8_coerced": 500, "json_string": 1000, "format_valid": 1000, "sha256": 150, "ann_object": 1000, "document_head": 200, "format_invalid": 20, "base64": 1000, "utf8_unchanged": 100}
	var low []string
	for k, n := range want {
		if run.Dist[k] < n {
			low = append(low, fmt.Sprintf("%s=%d<%d", k, run.Dist[k], n))
		}
	}
	if len(low) > 0 {
		run.Finish()
		fmt.Println("coverage floor not reached: " + strings.Join(low, " "))
		os.Exit(3)
	}
}
