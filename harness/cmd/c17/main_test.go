// C17 harness: the retrying transport (registry/remote/retry), the auth client's
// re-send after a challenge (registry/remote/auth) and the manifest-push buffering
// rule (registry/remote), driven by scripted servers under testing/synctest's fake
// clock, plus a sweep of policy decision points.
//
// Per case it writes the model input (cases.txt), the implementation's projected
// observable (impl.txt) and direct oracle failures (oracle.txt).  The oracle uses
// only the generator's ground truth (script, body bytes, policy numbers); it never
// consults the Coq model.
package main

import (
	"bytes"
	"context"
	"crypto/sha256"
	_ "crypto/sha512"
	"encoding/hex"
	"encoding/json"
	"errors"
	"fmt"
	"io"
	"math"
	"net"
	"net/http"
	"net/http/httptest"
	neturl "net/url"
	"os"
	"sort"
	"strconv"
	"strings"
	"sync"
	"syscall"
	"testing"
	"testing/synctest"
	"time"

	"github.com/opencontainers/go-digest"
	ocispec "github.com/opencontainers/image-spec/specs-go/v1"
	"oras.land/oras-go/v2/registry/remote"
	"oras.land/oras-go/v2/registry/remote/auth"
	"oras.land/oras-go/v2/registry/remote/errcode"
	"oras.land/oras-go/v2/registry/remote/retry"
	"verifharness/common"
)

var run *common.Run

func TestMain(m *testing.M) {
	run = common.Start("C17")
	code := m.Run()
	run.Finish()
	os.Exit(code)
}

// ---------------------------------------------------------------- case description

type behaviour struct {
	Kind       string `json:"kind"` // S | E (transport error of shape Err) | TO (= E net11) | ER (= E plain)
	Err        string `json:"err,omitempty"`
	Code       int    `json:"code,omitempty"`
	RetryAfter string `json:"retry_after,omitempty"`
	Chal       int    `json:"chal,omitempty"` // 0 none, 1 Basic, 2 Bearer, 3 unknown scheme
	Read       int    `json:"read"`           // bytes of the body the server reads; -1 = to EOF
	Lat        int64  `json:"lat"`
}

type scriptCase struct {
	Op       string      `json:"op"` // T (retry transport) | A (auth client over it, empty cache) | W (same, warm Bearer token cache)
	MaxRetry int         `json:"max_retry"`
	Min      int64       `json:"min"`
	Max      int64       `json:"max"`
	Tbl      []int64     `json:"tbl"`
	Dflt     int64       `json:"dflt"`
	Cancel   int64       `json:"cancel"` // instant the context ends; -1: never; another negative value: before the call
	Deadline bool        `json:"deadline"`
	Body     string      `json:"body"`            // N | R | O | G<k>
	Manifest string      `json:"manifest"`        // "" | M (auth client) | m (plain client) | I / i: the same with an OCI image manifest
	UnknownLen bool      `json:"unknown_len"`     // leave Request.ContentLength at 0 ("unknown") although the body is not empty
	Pred     string      `json:"pred"`            // "" = retry.DefaultPredicate; else <code><R|S|F>,...;d<rule>;e<rule>
	Method   string      `json:"method"`          // HTTP method ("" = PUT)
	DefaultPolicy bool   `json:"default_policy"`  // use retry.DefaultPolicy (random jitter: oracle only, no model line)
	PreAuth  bool        `json:"pre_auth"`
	TokenScript []behaviour `json:"token_script"` // op Q: what the token service answers
	TokenPost   bool        `json:"token_post"`   // op Q: OAuth2 POST (form body) instead of the distribution GET        // op T only: the stack is the auth client, the request already carries Authorization (no challenge handling)
	Data     string      `json:"data"`            // hex
	BigLen   int         `json:"big_len"`         // >0: data is generated (pattern), oracle only
	Script   []behaviour `json:"script"`
}

func (c *scriptCase) hasCancel() bool { return c.Cancel != -1 }

func (b behaviour) outString() string {
	if sh := b.shape(); sh != nil {
		return fmt.Sprintf("E%s:%s", sh.flags(), sh.name)
	}
	return fmt.Sprintf("S%d:%s:%d", b.Code, common.Hex(b.RetryAfter), b.Chal)
}

func (b behaviour) String() string {
	r := "*"
	if b.Read >= 0 {
		r = strconv.Itoa(b.Read)
	}
	return fmt.Sprintf("%s/%s/%d", b.outString(), r, b.Lat)
}

func joinInts(xs []int64) string {
	if len(xs) == 0 {
		return "-"
	}
	p := make([]string, len(xs))
	for i, x := range xs {
		p[i] = strconv.FormatInt(x, 10)
	}
	return strings.Join(p, ",")
}

func (c *scriptCase) data() []byte {
	if c.BigLen > 0 {
		d := make([]byte, c.BigLen)
		for i := range d {
			d[i] = byte((i*7 + i/251) % 253)
		}
		return d
	}
	d, err := hex.DecodeString(c.Data)
	if err != nil {
		panic(err)
	}
	return d
}

func (c *scriptCase) modelLine() string {
	cn := "-"
	if c.hasCancel() {
		cn = fmt.Sprintf("%d:c", c.Cancel)
		if c.Deadline {
			cn = fmt.Sprintf("%d:d", c.Cancel)
		}
	}
	sc := "-"
	if len(c.Script) > 0 {
		p := make([]string, len(c.Script))
		for i, b := range c.Script {
			p[i] = b.String()
		}
		sc = strings.Join(p, ";")
	}
	d := c.Data
	if d == "" {
		d = "-"
	}
	// harness-only options (the model does not depend on them)
	var opts []string
	if c.UnknownLen {
		opts = append(opts, "u")
	}
	if c.PreAuth {
		opts = append(opts, "preauth")
	}
	if c.Method != "" {
		opts = append(opts, "method="+c.Method)
	}
	o := "-"
	if len(opts) > 0 {
		o = strings.Join(opts, ",")
	}
	line := fmt.Sprintf("%s %s %d %d %d %s %d %s %s%s %s %s %s", c.Op, predToken(c.Pred), c.MaxRetry, c.Min, c.Max, joinInts(c.Tbl), c.Dflt, cn, c.Manifest, c.Body, d, sc, o)
	if c.Op == "Q" || c.Op == "Z" || c.Op == "w" {
		tb := "G"
		if c.TokenPost {
			tb = "P" + hex.EncodeToString([]byte(c.tokenFormOf()))
		}
		ts := "-"
		if len(c.TokenScript) > 0 {
			p := make([]string, len(c.TokenScript))
			for i, b := range c.TokenScript {
				p[i] = b.String()
			}
			ts = strings.Join(p, ";")
		}
		line += " " + tb + " " + ts
	}
	return line
}

// ---------------------------------------------------------------- scripted server

// netErr is a net.Error with chosen answers.
type netErr struct{ timeout, temporary bool }

func (e netErr) Error() string {
	return fmt.Sprintf("scripted: net error (timeout=%v temporary=%v)", e.timeout, e.temporary)
}
func (e netErr) Timeout() bool   { return e.timeout }
func (e netErr) Temporary() bool { return e.temporary }

// errShape: one kind of transport error the base transport can return, with the
// generator's own declaration of what it is: does the VALUE implement net.Error, what do
// its Timeout()/Temporary() report, and does the chain contain a timeout at all
// (anyTimeout: retrying it is within the documented rule "timeouts are retried").
type errShape struct {
	name                      string
	err                       error
	isNet, timeout, temporary bool
	anyTimeout                bool
}

func b2s(b bool) string {
	if b {
		return "1"
	}
	return "0"
}
func (s *errShape) flags() string { return b2s(s.isNet) + b2s(s.timeout) + b2s(s.temporary) }

var errShapes = []*errShape{
	{"plain", errors.New("scripted: connection reset by peer"), false, false, false, false},
	{"net00", netErr{false, false}, true, false, false, false},
	{"net01", netErr{false, true}, true, false, true, false},
	{"net10", netErr{true, false}, true, true, false, true},
	{"net11", netErr{true, true}, true, true, true, true},
	{"url-plain", &neturl.Error{Op: "Put", URL: "http://registry.example/", Err: errors.New("scripted: EOF")}, true, false, false, false},
	{"url-net01", &neturl.Error{Op: "Put", URL: "http://registry.example/", Err: netErr{false, true}}, true, false, true, false},
	{"url-net10", &neturl.Error{Op: "Put", URL: "http://registry.example/", Err: netErr{true, false}}, true, true, false, true},
	{"op-emfile", &net.OpError{Op: "dial", Net: "tcp", Err: syscall.EMFILE}, true, false, true, false},
	{"op-sys-enfile", &net.OpError{Op: "dial", Net: "tcp", Err: os.NewSyscallError("socket", syscall.ENFILE)}, true, false, true, false},
	{"op-etimedout", &net.OpError{Op: "dial", Net: "tcp", Err: syscall.ETIMEDOUT}, true, true, true, true},
	{"op-refused", &net.OpError{Op: "dial", Net: "tcp", Err: syscall.ECONNREFUSED}, true, false, false, false},
	{"url-op-emfile", &neturl.Error{Op: "Put", URL: "http://registry.example/", Err: &net.OpError{Op: "dial", Net: "tcp", Err: syscall.EMFILE}}, true, false, true, false},
	{"dns-temp", &net.DNSError{Err: "server misbehaving", Name: "registry.example", IsTemporary: true}, true, false, true, false},
	{"dns-timeout", &net.DNSError{Err: "i/o timeout", Name: "registry.example", IsTimeout: true}, true, true, true, true},
	{"errno-emfile", syscall.EMFILE, true, false, true, false},
	{"errno-eintr", syscall.EINTR, true, false, true, false},
	{"wrap-net11", fmt.Errorf("scripted dial: %w", netErr{true, true}), false, false, false, true},
	{"wrap-net01", fmt.Errorf("scripted dial: %w", netErr{false, true}), false, false, false, false},
}

func shapeByName(n string) *errShape {
	for _, s := range errShapes {
		if s.name == n {
			return s
		}
	}
	panic("unknown error shape " + n)
}

// checkLibraryFacts: the facts about net/http that the model takes for granted (assumptions of the
// props file), re-checked on every run against the toolchain the harness is built with.
func checkLibraryFacts() {
	must := func(ok bool, what string) {
		if !ok {
			panic("net/http no longer behaves as the C17 model assumes: " + what)
		}
	}
	data := []byte("abc")
	r1, _ := http.NewRequest(http.MethodPut, "http://x/", bytes.NewReader(data))
	must(r1.GetBody != nil && r1.ContentLength == 3, "NewRequest installs GetBody and ContentLength for *bytes.Reader")
	r2, _ := http.NewRequest(http.MethodPut, "http://x/", &oneShot{bytes.NewReader(data)})
	must(r2.GetBody == nil && r2.Body != nil && r2.ContentLength == 0, "NewRequest leaves GetBody nil and ContentLength 0 for an unknown reader")
	r3, _ := http.NewRequest(http.MethodPut, "http://x/", io.NopCloser(bytes.NewReader(data)))
	must(r3.GetBody == nil, "NewRequest leaves GetBody nil for a ReadCloser wrapping a replayable reader")
	r4, _ := http.NewRequest(http.MethodPut, "http://x/", nil)
	must(r4.Body == nil && r4.GetBody == nil, "NewRequest with a nil body leaves Body nil")
	c := r1.Clone(context.Background())
	must(c.Body == r1.Body, "Request.Clone shares Body")
	b1, _ := c.GetBody()
	got, _ := io.ReadAll(b1)
	must(string(got) == "abc", "Request.Clone shares GetBody")
	var de error = context.DeadlineExceeded
	ne, ok := de.(net.Error)
	must(ok && ne.Timeout(), "context.DeadlineExceeded is a net.Error reporting Timeout()")
	_, ok = error(context.Canceled).(net.Error)
	must(!ok, "context.Canceled is not a net.Error")
	// http.Client.Do hands the request (Body, GetBody, ContentLength, context) to the RoundTripper and
	// returns its response for the status codes used
	var seen *http.Request
	hc := &http.Client{Transport: roundTripFunc(func(q *http.Request) (*http.Response, error) {
		seen = q
		return &http.Response{StatusCode: 503, Header: http.Header{}, Body: http.NoBody, Request: q}, nil
	})}
	resp, err := hc.Do(r1)
	must(err == nil && resp.StatusCode == 503 && seen != nil && seen.Body == r1.Body && seen.ContentLength == 3 && seen.GetBody != nil,
		"http.Client.Do passes Body/GetBody/ContentLength through and returns the RoundTripper's response")
}

type roundTripFunc func(*http.Request) (*http.Response, error)

func (f roundTripFunc) RoundTrip(r *http.Request) (*http.Response, error) { return f(r) }

// the declarations above must be what the Go values really report (guards the table)
func checkShapes() {
	for _, s := range errShapes {
		ne, ok := s.err.(net.Error)
		if ok != s.isNet || ok && (ne.Timeout() != s.timeout || ne.Temporary() != s.temporary) || !ok && (s.timeout || s.temporary) {
			panic(fmt.Sprintf("error shape %s is declared %s but the value reports net.Error=%v", s.name, s.flags(), ok))
		}
	}
}

func (b behaviour) shape() *errShape {
	switch b.Kind {
	case "TO":
		return shapeByName("net11")
	case "ER":
		return shapeByName("plain")
	case "E":
		return shapeByName(b.Err)
	}
	return nil
}

// the form fetchOAuth2Token posts for the credential, service and scope of these cases
const tokenForm = "client_id=oras-go&grant_type=password&password=p&scope=repository%3Ar%3Apull&service=scripted&username=u"

// within a push the request's context carries the push's scope, which the form then names
const tokenFormPush = "client_id=oras-go&grant_type=password&password=p&scope=repository%3Ar%3Apull%2Cpush&service=scripted&username=u"

func (c *scriptCase) tokenFormOf() string {
	if c.Op == "Z" || c.Manifest != "" {
		return tokenFormPush
	}
	return tokenForm
}

const indexedManifestJSON = `{"schemaVersion":2,"mediaType":"application/vnd.oci.image.manifest.v1+json","config":{"mediaType":"application/vnd.oci.empty.v1+json","digest":"sha256:44136fa355b3678a1146ad16f7e8649e94fb4fc21fe77e8310c060f61caaff8a","size":2},"layers":[]}`

var errPred = errors.New("scripted: predicate refuses this answer")

type attemptRec struct {
	t    int64
	got  []byte
	auth string // Authorization header of the request
	method string
	ctxEnded bool // the request's context had already ended when the request reached the server
	seq        int // position in the order in which the scripted transport saw all requests of the case
	url, ctype string
	clen       int64 // Request.ContentLength as the transport would frame the body
	beh  behaviour
}

const tokenHost = "token.example"

type server struct {
	start  time.Time
	script []behaviour
	pos    int
	log    []attemptRec
	tokens int
	lastShape *errShape // shape of the error returned for the last scripted request (nil: a response)
	lastCode  int       // status of the last scripted response
	// scripted token service (token scenarios only)
	tokenScripted bool
	tokenScript   []behaviour
	tokenPos      int
	tokenLog      []attemptRec
	seq           int
	lastToken     bool // the last scripted request went to the token service
}

func (s *server) RoundTrip(req *http.Request) (*http.Response, error) {
	mk := func(code int, body string) *http.Response {
		return &http.Response{StatusCode: code, Status: fmt.Sprintf("%d %s", code, http.StatusText(code)),
			Proto: "HTTP/1.1", ProtoMajor: 1, ProtoMinor: 1, Header: http.Header{},
			Body: io.NopCloser(strings.NewReader(body)), ContentLength: int64(len(body)), Request: req}
	}
	if req.URL.Host == tokenHost && s.tokenScripted {
		// a scripted token service: the token request is a request of the same stack
		b := behaviour{Kind: "S", Code: 200, Read: -1}
		if s.tokenPos < len(s.tokenScript) {
			b = s.tokenScript[s.tokenPos]
		}
		s.tokenPos++
		rec := attemptRec{t: int64(time.Since(s.start)), method: req.Method, beh: b, url: req.URL.String(),
			ctype: req.Header.Get("Content-Type"), clen: req.ContentLength}
		if req.Body != nil {
			if b.Read < 0 {
				rec.got, _ = io.ReadAll(req.Body)
			} else {
				buf := make([]byte, b.Read)
				n, _ := io.ReadFull(req.Body, buf)
				rec.got = buf[:n]
			}
			req.Body.Close()
		}
		rec.ctxEnded = req.Context().Err() != nil
		s.seq++
		rec.seq = s.seq
		s.tokenLog = append(s.tokenLog, rec)
		s.lastToken, s.lastShape, s.lastCode = true, nil, 0
		if rec.ctxEnded {
			return nil, req.Context().Err()
		}
		if b.Lat > 0 {
			tm := time.NewTimer(time.Duration(b.Lat))
			select {
			case <-req.Context().Done():
				tm.Stop()
				return nil, req.Context().Err()
			case <-tm.C:
			}
		}
		s.lastShape = b.shape()
		if s.lastShape != nil {
			return nil, s.lastShape.err
		}
		s.lastCode = b.Code
		if b.Code != 200 {
			return mk(b.Code, ""), nil
		}
		s.tokens++
		return mk(200, fmt.Sprintf(`{"access_token":"tok%d","token":"tok%d"}`, s.tokens, s.tokens)), nil
	}
	if req.URL.Host == tokenHost {
		if req.Body != nil {
			io.Copy(io.Discard, req.Body)
			req.Body.Close()
		}
		s.tokens++
		return mk(200, fmt.Sprintf(`{"access_token":"tok%d","token":"tok%d"}`, s.tokens, s.tokens)), nil
	}
	s.lastToken = false
	if len(s.log) > 4000 {
		panic("runaway: more than 4000 requests in one case") // (no case needs more than ~30)
	}
	b := behaviour{Kind: "S", Code: 200, Read: -1}
	if s.pos < len(s.script) {
		b = s.script[s.pos]
	}
	s.pos++
	rec := attemptRec{t: int64(time.Since(s.start)), auth: req.Header.Get("Authorization"), method: req.Method, beh: b,
		url: req.URL.String(), ctype: req.Header.Get("Content-Type"), clen: req.ContentLength}
	if req.Body != nil {
		if b.Read < 0 {
			rec.got, _ = io.ReadAll(req.Body)
		} else {
			buf := make([]byte, b.Read)
			n, _ := io.ReadFull(req.Body, buf)
			rec.got = buf[:n]
		}
		req.Body.Close()
	}
	rec.ctxEnded = req.Context().Err() != nil
	s.seq++
	rec.seq = s.seq
	s.log = append(s.log, rec)
	if rec.ctxEnded {
		// like net/http's transport: nothing is done for a request whose context has ended
		s.lastShape = nil
		return nil, req.Context().Err()
	}
	if b.Lat > 0 {
		tm := time.NewTimer(time.Duration(b.Lat))
		select {
		case <-req.Context().Done():
			tm.Stop()
			return nil, req.Context().Err()
		case <-tm.C:
		}
	}
	s.lastShape = b.shape()
	if s.lastShape != nil {
		return nil, s.lastShape.err
	}
	s.lastCode = b.Code
	resp := mk(b.Code, "")
	if b.Code == 202 && req.Method == http.MethodPost {
		resp.Header.Set("Location", "/v2/r/blobs/uploads/session-1") // blob upload session
	}
	if b.RetryAfter != "" {
		resp.Header.Set("Retry-After", b.RetryAfter)
	}
	switch b.Chal {
	case 1:
		resp.Header.Set("Www-Authenticate", `Basic realm="scripted"`)
	case 2:
		resp.Header.Set("Www-Authenticate", `Bearer realm="http://`+tokenHost+`/token",service="scripted",scope="repository:r:pull"`)
	case 3:
		resp.Header.Set("Www-Authenticate", `Negotiate`)
	}
	return resp, nil
}

type oneShot struct{ r io.Reader }

func (o *oneShot) Read(p []byte) (int, error) { return o.r.Read(p) }

// ---------------------------------------------------------------- running one script

type scriptObs struct {
	res    string
	end    int64
	log    []attemptRec
	tokenLog []attemptRec
	panicv any
}

// rewindHint: the class of an otherwise unknown error when the last scripted answer was a 401
// (the only error the auth client produces by itself then is its refusal to re-send a body it
// cannot rewind) -- keeps the classification independent of the wording of that error.
func classify(resp *http.Response, err error, last *errShape, rewindHint string) string {
	return classifyTok(resp, err, last, rewindHint, false)
}

// tokenLast: the last scripted request went to the token service (an error response is the
// token service's then)
func classifyTok(resp *http.Response, err error, last *errShape, rewindHint string, tokenLast bool) string {
	if err == nil {
		if resp == nil {
			return "NILNIL"
		}
		return fmt.Sprintf("RESP%d", resp.StatusCode)
	}
	var er *errcode.ErrorResponse
	switch {
	case errors.Is(err, context.Canceled), errors.Is(err, context.DeadlineExceeded):
		return "ECTX"
	case last != nil && errors.Is(err, last.err):
		// the transport error of the last scripted answer, named by its declared flags
		return "EERR" + last.flags()
	case errors.Is(err, errPred):
		return "EPRED"
	case errors.As(err, &er):
		if tokenLast {
			return fmt.Sprintf("ETOKEN%d", er.StatusCode)
		}
		return fmt.Sprintf("RESP%d", er.StatusCode)
	case strings.Contains(err.Error(), "request body is not rewindable"):
		return "ENOTREWINDABLE"
	case strings.Contains(err.Error(), "failed to get request body"):
		return "EGETBODY"
	}
	if rewindHint != "" {
		return rewindHint
	}
	return "E?" + strings.ReplaceAll(err.Error(), " ", "_")
}

func (s *server) rewindHint(c *scriptCase) string {
	if s.lastShape != nil || !(s.lastCode == 401 && !s.lastToken || s.lastCode == 200 && s.lastToken) {
		return "" // (after a challenge, or after the token for it arrived)
	}
	switch c.Body[0] {
	case 'O':
		return "ENOTREWINDABLE"
	case 'G':
		return "EGETBODY"
	}
	return ""
}

func predToken(p string) string {
	if p == "" {
		return "-"
	}
	return p
}

// predRule is the generator's reading of a custom predicate spec: 'R' retry, 'S' stop, 'F' fail.
func predRule(spec string, b behaviour) byte {
	parts := strings.Split(spec, ";")
	if b.shape() != nil {
		return parts[2][1]
	}
	if parts[0] != "" && parts[0] != "-" {
		for _, e := range strings.Split(parts[0], ",") {
			if code, _ := strconv.Atoi(e[:len(e)-1]); code == b.Code {
				return e[len(e)-1]
			}
		}
	}
	return parts[1][1]
}

func customPredicate(spec string) retry.Predicate {
	return func(resp *http.Response, err error) (bool, error) {
		var b behaviour
		if err != nil {
			b = behaviour{Kind: "ER"}
		} else {
			b = behaviour{Kind: "S", Code: resp.StatusCode}
		}
		switch predRule(spec, b) {
		case 'R':
			return true, nil
		case 'S':
			return false, nil
		}
		if err != nil {
			return false, err
		}
		return false, errPred
	}
}

func (c *scriptCase) policy() retry.Policy {
	if c.DefaultPolicy {
		return retry.DefaultPolicy
	}
	tbl, dflt := c.Tbl, c.Dflt
	pred := retry.DefaultPredicate
	if c.Pred != "" {
		pred = customPredicate(c.Pred)
	}
	return &retry.GenericPolicy{
		Retryable: pred,
		Backoff: func(attempt int, resp *http.Response) time.Duration {
			if attempt >= 0 && attempt < len(tbl) {
				return time.Duration(tbl[attempt])
			}
			return time.Duration(dflt)
		},
		MinWait: time.Duration(c.Min), MaxWait: time.Duration(c.Max), MaxRetry: c.MaxRetry,
	}
}

// wedged: a case that does not finish.  Under synctest a blocked bubble panics ("deadlock"), which
// is turned into an oracle failure; a bubble that spins, or real I/O that hangs, is caught by a
// wall-clock watchdog (generous: a case takes well under a millisecond) that records the case as
// a failure with its replay and ends the run, so that the check reports instead of hanging.
func watchdog(id string, replay any) *time.Timer {
	return time.AfterFunc(90*time.Second, func() {
		run.OracleFail(id, "wedged", "wedged: the case did not finish within 90 s of wall-clock time", replay)
		run.Finish()
		os.Exit(3)
	})
}

func execScript(t *testing.T, c *scriptCase) (obs scriptObs) {
	data := c.data()
	wd := watchdog(fmt.Sprintf("w%d", run.Evaluations), c)
	defer wd.Stop()
	defer func() {
		if r := recover(); r != nil {
			// synctest: "deadlock: all goroutines in bubble are blocked"
			obs.panicv, obs.res = r, "PANIC"
		}
	}()
	synctest.Test(t, func(t *testing.T) {
		srv := &server{start: time.Now(), script: c.Script}
		var authClient *auth.Client
		if c.Op == "A" || c.Op == "W" || c.Op == "w" || c.Op == "V" || c.Op == "U" || c.Op == "X" || c.Op == "Q" || c.Op == "Y" || c.Op == "Z" || c.PreAuth {
			authClient = &auth.Client{Cache: auth.NewCache(),
				Credential: auth.StaticCredential("registry.example", auth.Credential{Username: "u", Password: "p"})}
		}
		if c.Op == "Q" || c.Op == "Z" {
			// the token request is part of the case: scripted token service, GET or OAuth2 POST
			srv.tokenScripted, srv.tokenScript = true, c.TokenScript
			authClient.ForceAttemptOAuth2 = c.TokenPost
		}
		if c.Op == "W" || c.Op == "w" {
			// warm the token cache: one challenged GET, so that a Bearer token for the
			// challenge's scope is cached before the request under test
			authClient.Client = &http.Client{Transport: srv} // no retries, no custom predicate during the warm-up
			srv.script = []behaviour{{Kind: "S", Code: 401, Chal: 2, Read: -1}, {Kind: "S", Code: 200, Read: -1}}
			wreq, _ := http.NewRequest(http.MethodGet, "http://registry.example/v2/", nil)
			wresp, werr := authClient.Do(wreq)
			if werr != nil || wresp.StatusCode != 200 {
				panic(fmt.Sprint("warm-up failed: ", werr))
			}
			wresp.Body.Close()
			srv.script, srv.pos, srv.log, srv.start = c.Script, 0, nil, time.Now()
			if c.Op == "w" {
				// from here on the token service is scripted (the fresh token of the third send)
				srv.tokenScripted, srv.tokenScript = true, c.TokenScript
				authClient.ForceAttemptOAuth2 = c.TokenPost
			}
		}
		ctx := context.Background()
		if c.Op == "V" || c.Op == "X" {
			// the cache holds a Bearer token under the request's own scope key: the first send of the
			// request under test already carries it (the normal state within a push session)
			scope := "repository:r:pull"
			if c.Op == "X" {
				scope = "repository:r:pull,push" // what blobStore.Push appends
			}
			wctx := auth.WithScopes(context.Background(), scope)
			authClient.Client = &http.Client{Transport: srv}
			srv.script = []behaviour{{Kind: "S", Code: 401, Chal: 2, Read: -1}, {Kind: "S", Code: 200, Read: -1}}
			wreq, _ := http.NewRequestWithContext(wctx, http.MethodGet, "http://registry.example/v2/", nil)
			wresp, werr := authClient.Do(wreq)
			if werr != nil || wresp.StatusCode != 200 {
				panic(fmt.Sprint("warm-up failed: ", werr))
			}
			wresp.Body.Close()
			srv.script, srv.pos, srv.log, srv.start = c.Script, 0, nil, time.Now()
			if c.Op == "V" {
				ctx = auth.WithScopes(ctx, scope)
			}
		}
		var cancel context.CancelFunc = func() {}
		if c.hasCancel() {
			if c.Deadline {
				ctx, cancel = context.WithDeadline(ctx, srv.start.Add(time.Duration(c.Cancel)))
			} else {
				ctx, cancel = context.WithCancel(ctx)
				if c.Cancel < 0 {
					cancel() // ended before the call
				} else {
					tm := time.AfterFunc(time.Duration(c.Cancel), cancel)
					defer tm.Stop()
				}
			}
		}
		defer cancel()
		pol := c.policy()
		rt := &retry.Transport{Base: srv, Policy: func() retry.Policy { return pol }}
		if c.DefaultPolicy {
			rt = retry.NewTransport(srv) // Policy nil: the transport falls back to retry.DefaultPolicy
		}
		hc := &http.Client{Transport: rt}
		var client remote.Client = hc
		if authClient != nil {
			authClient.Client = hc
			client = authClient
		}
		func() {
			defer func() {
				if r := recover(); r != nil {
					obs.panicv = r
					obs.res = "PANIC"
				}
			}()
			if c.Op == "Y" || c.Op == "y" {
				// cross-repository mount that the registry declines (202): the blob is uploaded instead, read
				// from an io.ReadCloser -- whatever that wraps, the PUT's body cannot be replayed
				repo, err := remote.NewRepository("registry.example/r")
				if err != nil {
					panic(err)
				}
				repo.PlainHTTP = true
				repo.Client = client
				desc := ocispec.Descriptor{MediaType: "application/octet-stream",
					Digest: digest.Digest("sha256:" + hex.EncodeToString(sha256Sum(data))), Size: int64(len(data))}
				err = repo.Mount(ctx, desc, "other", func() (io.ReadCloser, error) {
					if len(data)%2 == 0 {
						return io.NopCloser(bytes.NewReader(data)), nil // a replayable reader behind a ReadCloser
					}
					return io.NopCloser(&oneShot{bytes.NewReader(data)}), nil
				})
				if err == nil {
					obs.res = "RESP201"
				} else {
					obs.res = classifyTok(nil, err, srv.lastShape, srv.rewindHint(c), srv.lastToken)
				}
				return
			}
			if c.Op == "U" || c.Op == "u" || c.Op == "X" || c.Op == "Z" {
				// blob push through the Repository: POST (no body), then PUT with the blob
				repo, err := remote.NewRepository("registry.example/r")
				if err != nil {
					panic(err)
				}
				repo.PlainHTTP = true
				repo.Client = client
				desc := ocispec.Descriptor{MediaType: "application/octet-stream",
					Digest: digest.Digest("sha256:" + hex.EncodeToString(sha256Sum(data))), Size: int64(len(data))}
				var rd io.Reader = bytes.NewReader(data)
				if c.Body == "O" {
					rd = &oneShot{bytes.NewReader(data)}
				}
				err = repo.Blobs().Push(ctx, desc, rd)
				if err == nil {
					obs.res = "RESP201"
				} else {
					obs.res = classifyTok(nil, err, srv.lastShape, srv.rewindHint(c), srv.lastToken)
				}
				return
			}
			if c.Manifest != "" {
				repo, err := remote.NewRepository("registry.example/r")
				if err != nil {
					panic(err)
				}
				repo.PlainHTTP = true
				repo.Client = client
				mt := "application/vnd.docker.distribution.manifest.v2+json"
				if c.Manifest == "I" || c.Manifest == "i" {
					mt = ocispec.MediaTypeImageManifest // pushWithIndexing reads the content into memory first
				}
				desc := ocispec.Descriptor{MediaType: mt,
					Digest: digest.Digest("sha256:" + hex.EncodeToString(sha256Sum(data))), Size: int64(len(data))}
				var rd io.Reader = bytes.NewReader(data)
				if c.Body == "O" {
					rd = &oneShot{bytes.NewReader(data)}
				}
				err = repo.Manifests().Push(ctx, desc, rd)
				if err == nil {
					obs.res = "RESP201"
				} else {
					obs.res = classifyTok(nil, err, srv.lastShape, srv.rewindHint(c), srv.lastToken)
				}
				return
			}
			var req *http.Request
			var err error
			url := "http://registry.example/v2/r/blobs/uploads/1"
			method := c.Method
			if method == "" {
				method = http.MethodPut
			}
			switch c.Body[0] {
			case 'N':
				req, err = http.NewRequestWithContext(ctx, method, url, nil)
			case 'B':
				// Body == http.NoBody and GetBody == nil (what NewRequest makes of http.NoBody)
				req, err = http.NewRequestWithContext(ctx, method, url, http.NoBody)
				if req.GetBody != nil || req.Body != http.NoBody {
					panic("http.NewRequest(.., http.NoBody) no longer yields Body == NoBody without GetBody")
				}
			case 'R':
				req, err = http.NewRequestWithContext(ctx, method, url, bytes.NewReader(data))
			case 'O':
				req, err = http.NewRequestWithContext(ctx, method, url, &oneShot{bytes.NewReader(data)})
				req.ContentLength = int64(len(data))
			case 'G':
				k, _ := strconv.Atoi(c.Body[1:])
				req, err = http.NewRequestWithContext(ctx, method, url, &oneShot{bytes.NewReader(data)})
				req.ContentLength = int64(len(data))
				calls := 0
				req.GetBody = func() (io.ReadCloser, error) {
					calls++
					if calls > k {
						return nil, errors.New("scripted: GetBody failed")
					}
					return io.NopCloser(bytes.NewReader(data)), nil
				}
			}
			if err != nil {
				panic(err)
			}
			if c.UnknownLen {
				// net/http: a non-nil Body with ContentLength 0 means "unknown length"
				req.ContentLength = 0
			}
			if c.PreAuth {
				req.Header.Set("Authorization", "Bearer preset")
			}
			resp, err := client.Do(req)
			obs.res = classifyTok(resp, err, srv.lastShape, srv.rewindHint(c), srv.lastToken)
			if resp != nil {
				resp.Body.Close()
			}
		}()
		obs.end = int64(time.Since(srv.start))
		obs.log = srv.log
		obs.tokenLog = srv.tokenLog
	})
	return obs
}

func sha256Sum(b []byte) []byte { h := sha256.Sum256(b); return h[:] }

func showAttempts(recs []attemptRec, data []byte) string {
	if len(recs) == 0 {
		return "-"
	}
	p := make([]string, len(recs))
	for i, r := range recs {
		if bytes.HasPrefix(data, r.got) {
			p[i] = fmt.Sprintf("%d:%d", r.t, len(r.got))
		} else {
			p[i] = fmt.Sprintf("%d:BAD", r.t)
		}
	}
	return strings.Join(p, ",")
}

// retryableTruth: may this answer be followed by another attempt?  DefaultPredicate's documented
// rule: 408, 429, 5xx (and status 0) and timeouts -- nothing else, in particular not a transport
// error that is merely Temporary().  A custom predicate: its own rule.
func retryableTruth(pred string, b behaviour) bool {
	if pred != "" {
		return predRule(pred, b) == 'R'
	}
	if sh := b.shape(); sh != nil {
		return sh.anyTimeout
	}
	return b.Code == 408 || b.Code == 429 || b.Code == 0 || b.Code >= 500
}

func outcomeTruth(pred string, b behaviour) string {
	if sh := b.shape(); sh != nil {
		return "EERR" + sh.flags()
	}
	if pred != "" && predRule(pred, b) == 'F' {
		return "EPRED"
	}
	return fmt.Sprintf("RESP%d", b.Code)
}

func scriptCaseRun(t *testing.T, c *scriptCase) {
	id := run.NewID()
	obs := execScript(t, c)
	data := c.data()
	// sends: maximal runs of attempts carrying the same Authorization header
	sends := make([][]attemptRec, 3)
	si := 0
	for i, r := range obs.log {
		if i > 0 && r.auth != obs.log[i-1].auth && si < 2 {
			si++
		}
		sends[si] = append(sends[si], r)
	}
	line := fmt.Sprintf("%s end=%d first=%s", obs.res, obs.end, showAttempts(sends[0], data))
	if c.Op != "T" {
		line += " second=" + showAttempts(sends[1], data) + " third=" + showAttempts(sends[2], data)
	}
	var form []byte
	if c.TokenPost {
		form = []byte(c.tokenFormOf())
	}
	if c.Op == "Q" {
		line = fmt.Sprintf("%s end=%d first=%s token=%s second=%s", obs.res, obs.end, showAttempts(sends[0], data),
			showAttempts(obs.tokenLog, form), showAttempts(sends[1], data))
		run.Count(fmt.Sprintf("token_attempts_%d", len(obs.tokenLog)))
	}
	if c.Op == "w" {
		line = fmt.Sprintf("%s end=%d first=%s second=%s token=%s third=%s", obs.res, obs.end, showAttempts(sends[0], data),
			showAttempts(sends[1], data), showAttempts(obs.tokenLog, form), showAttempts(sends[2], data))
	}
	upload := c.Op == "U" || c.Op == "u" || c.Op == "X" || c.Op == "Y" || c.Op == "y" || c.Op == "Z"
	if upload {
		// sends of a blob push: POST (as sent first / re-sent after a challenge), PUT (same)
		sends = make([][]attemptRec, 4)
		for i, r := range obs.log {
			base := 0
			if r.method == http.MethodPut {
				base = 2
			}
			k := base
			if len(sends[base]) > 0 && (len(sends[base+1]) > 0 || r.auth != sends[base][len(sends[base])-1].auth) {
				k = base + 1
			}
			_ = i
			sends[k] = append(sends[k], r)
		}
		line = fmt.Sprintf("%s end=%d post=%s|%s put=%s|%s", obs.res, obs.end, showAttempts(sends[0], nil), showAttempts(sends[1], nil),
			showAttempts(sends[2], data), showAttempts(sends[3], data))
		if c.Op == "Z" {
			line += " tok=" + showAttempts(obs.tokenLog, form)
			run.Count(fmt.Sprintf("token_attempts_%d", len(obs.tokenLog)))
		}
	}
	if c.DefaultPolicy {
		run.Evaluations++
		run.Count("oracle_only_default_policy")
	} else if c.BigLen == 0 {
		run.Case(id, c.modelLine(), line)
	} else {
		run.Evaluations++
		run.Count("oracle_only_big_body")
	}
	run.TracesAgainstImpl++
	run.Count("op_" + c.Op + c.Manifest)
	run.Count("body_" + c.Body[:1])
	run.Count("result_" + strings.TrimRight(obs.res, "0123456789"))
	run.Count(fmt.Sprintf("attempts_%d", len(obs.log)))
	if c.hasCancel() {
		run.Count("with_cancel")
	}
	if len(obs.log) > 1 {
		run.Nontrivial(c.modelLine())
		run.Sample(map[string]any{"case": c, "observed": line})
	}

	fail := func(sig, msg string) {
		run.OracleFail(id, sig, fmt.Sprintf("%s: %s; observed %s", sig, msg, line), c)
	}
	if obs.panicv != nil {
		fail("transport-panic", fmt.Sprint(obs.panicv))
		return
	}
	// O1: what the registry received on every attempt
	for i, r := range obs.log {
		want := data
		if c.Body[0] == 'N' || c.Body[0] == 'B' || upload && r.method == http.MethodPost {
			want = nil
		}
		if r.beh.Read >= 0 && r.beh.Read < len(want) {
			want = want[:r.beh.Read]
		}
		if !bytes.Equal(r.got, want) {
			fail("body-truncated", fmt.Sprintf("attempt %d received %d bytes (prefix ok=%v), the body has %d and the server read up to %d",
				i, len(r.got), bytes.HasPrefix(data, r.got), len(data), r.beh.Read))
			break
		}
	}
	// O1t: the token request (op Q) carries its whole form on every attempt, and stays the same request
	for i, r := range obs.tokenLog {
		want := form
		if r.beh.Read >= 0 && r.beh.Read < len(want) {
			want = want[:r.beh.Read]
		}
		wantMethod := http.MethodGet
		if c.TokenPost {
			wantMethod = http.MethodPost
		}
		if !bytes.Equal(r.got, want) {
			fail("body-truncated", fmt.Sprintf("token request attempt %d received %q, its form is %q and the service read up to %d", i, r.got, form, r.beh.Read))
			break
		}
		if r.method != wantMethod || r.clen != int64(len(form)) || r.url != obs.tokenLog[0].url || r.ctype != obs.tokenLog[0].ctype {
			fail("request-changed", fmt.Sprintf("token request attempt %d: %s %s Content-Length %d Content-Type %q", i, r.method, r.url, r.clen, r.ctype))
			break
		}
	}
	// O1b: a re-sent request is the same request: method, URL, Content-Type as on the first attempt
	// with that method, and the Content-Length the caller (generator) gave it -- a real transport
	// frames the body by it, so a stale or reset value truncates or breaks the upload
	firstOf := map[string]attemptRec{}
	for i, r := range obs.log {
		f, seen := firstOf[r.method]
		if !seen {
			firstOf[r.method] = r
			f = r
		}
		if r.url != f.url || r.ctype != f.ctype {
			fail("request-changed", fmt.Sprintf("attempt %d: %s %s (Content-Type %q) differs from the first %s %s (%q)", i, r.method, r.url, r.ctype, f.method, f.url, f.ctype))
			break
		}
		wantLen := int64(len(data))
		if c.Body[0] == 'N' || c.Body[0] == 'B' || c.UnknownLen || upload && r.method == http.MethodPost {
			wantLen = 0
		}
		if r.clen != wantLen {
			fail("request-changed", fmt.Sprintf("attempt %d: Content-Length %d, the request was built with %d", i, r.clen, wantLen))
			break
		}
	}
	// O2..O4 per send
	limit := c.MaxRetry + 1
	if limit < 1 {
		limit = 1
	}
	if c.Op == "T" && len(sends[1]) > 0 {
		fail("wrong-result", "the Authorization header changed between attempts of a plain transport")
	}
	// token requests: one send per fetch (a push may fetch twice: consecutive runs in the request order)
	var tokenSends [][]attemptRec
	for i, r := range obs.tokenLog {
		if i == 0 || r.seq != obs.tokenLog[i-1].seq+1 {
			tokenSends = append(tokenSends, nil)
		}
		tokenSends[len(tokenSends)-1] = append(tokenSends[len(tokenSends)-1], r)
	}
	for si, send := range append(append([][]attemptRec(nil), sends...), tokenSends...) {
		if len(send) > limit {
			fail("too-many-attempts", fmt.Sprintf("send %d made %d attempts, MaxRetry=%d", si, len(send), c.MaxRetry))
		}
		for i := 0; i+1 < len(send); i++ {
			if !retryableTruth(c.Pred, send[i].beh) {
				fail("nonretryable-retried", fmt.Sprintf("send %d attempt %d got %s and was followed by another attempt", si, i, outcomeTruth(c.Pred, send[i].beh)))
			}
			prevEnd := send[i].t + send[i].beh.Lat
			if c.hasCancel() && c.Cancel < prevEnd {
				// the context ended while the server was busy: the attempt was over at that instant
				prevEnd = c.Cancel
				if prevEnd < send[i].t {
					prevEnd = send[i].t
				}
			}
			pause := send[i+1].t - prevEnd
			if c.Min <= c.Max && (pause < c.Min || pause > c.Max) {
				fail("pause-bounds", fmt.Sprintf("send %d pause after attempt %d is %d, outside [%d,%d]", si, i, pause, c.Min, c.Max))
			}
		}
	}
	// O5: bodies that cannot be replayed.  Re-sending one is a violation exactly when an
	// earlier attempt consumed part of it (then the re-send is truncated; O1 reports it
	// too); a reader nobody has read from may be sent again.
	consumed := 0
	firstResend := -1
	for i, r := range obs.log {
		if i > 0 && consumed > 0 && firstResend < 0 {
			firstResend = i
		}
		consumed += len(r.got)
	}
	switch c.Body[0] {
	case 'O':
		if c.Manifest != "M" && c.Manifest != "I" && c.Manifest != "i" && firstResend > 0 {
			fail("oneshot-resent", fmt.Sprintf("%d attempts with a one-shot body, attempt %d came after part of it was consumed", len(obs.log), firstResend))
		}
	case 'G':
		k, _ := strconv.Atoi(c.Body[1:])
		if len(obs.log) > k+1 && firstResend > 0 {
			fail("oneshot-resent", fmt.Sprintf("%d attempts although GetBody works only %d times", len(obs.log), k))
		}
	}
	// O6: cancellation
	if c.hasCancel() {
		endAt := c.Cancel // the instant the call must be over
		if endAt < 0 {
			endAt = 0
		}
		for i, r := range append(append([]attemptRec(nil), obs.log...), obs.tokenLog...) {
			// the first request of the call is the caller's; every later one is a re-send decided by the stack
			if i > 0 && (r.t > c.Cancel || r.ctxEnded) {
				fail("cancel-ignored", fmt.Sprintf("attempt %d started at %d on a context that ended at %d", i, r.t, c.Cancel))
				break
			}
		}
		if obs.end > endAt || (obs.res == "ECTX" && obs.end != endAt) {
			fail("cancel-late", fmt.Sprintf("call returned at %d, the context ended at %d", obs.end, c.Cancel))
		}
		if obs.end == endAt && obs.res != "ECTX" && !c.DefaultPolicy { // (random pauses may end exactly then)
			fail("cancel-result", "call ended with the context but did not return its error")
		}
	}
	// O7 (op Q, the call ended with the token request): the token service's last answer decides
	tokenWasLast := len(obs.tokenLog) > 0 && (len(obs.log) == 0 || obs.tokenLog[len(obs.tokenLog)-1].seq > obs.log[len(obs.log)-1].seq)
	if (c.Op == "Q" || c.Op == "Z" || c.Op == "w") && obs.res != "ECTX" && tokenWasLast {
		tl := obs.tokenLog[len(obs.tokenLog)-1]
		var want []string
		switch {
		case tl.beh.shape() != nil:
			want = []string{"EERR" + tl.beh.shape().flags()}
		case tl.beh.Code == 200:
			// the token arrived and nothing was sent again: only a body that cannot be rewound explains it
			if c.Body[0] == 'O' {
				want = []string{"ENOTREWINDABLE"}
			} else if c.Body[0] == 'G' {
				want = []string{"EGETBODY"}
			}
		default:
			want = []string{fmt.Sprintf("ETOKEN%d", tl.beh.Code)}
			if c.Pred != "" && predRule(c.Pred, tl.beh) == 'F' && len(obs.tokenLog)-1 < c.MaxRetry {
				want = []string{"EPRED"}
			}
		}
		ok := false
		for _, w := range want {
			ok = ok || w == obs.res
		}
		if !ok {
			fail("wrong-result", fmt.Sprintf("the token service's last answer was %s, expected %v", outcomeTruth(c.Pred, tl.beh), want))
		}
	} else
	// O7: the result is the last answer (or a rewind error of the auth client)
	if obs.res != "ECTX" && len(obs.log) > 0 {
		last := obs.log[len(obs.log)-1]
		want := outcomeTruth(c.Pred, last.beh)
		if want == "EPRED" {
			// the predicate is consulted only while retries are left (attempt < MaxRetry)
			pos := 0
			for _, send := range sends {
				if len(send) > 0 {
					pos = len(send) - 1
				}
			}
			if pos >= c.MaxRetry {
				want = fmt.Sprintf("RESP%d", last.beh.Code)
			}
		}
		ok := obs.res == want
		rewindErr := obs.res == "ENOTREWINDABLE" && c.Body[0] == 'O' || obs.res == "EGETBODY" && c.Body[0] == 'G'
		if !ok && rewindErr && upload {
			// blob push: the PUT was challenged (it did not inherit credentials from the POST)
			if (c.Op == "U" || c.Op == "X" || c.Op == "Y" || c.Op == "Z") && last.beh.Kind == "S" && last.beh.Code == 401 && (last.beh.Chal == 1 || last.beh.Chal == 2) &&
				len(sends[1]) == 0 && len(sends[2]) > 0 && len(sends[3]) == 0 {
				ok = true
			}
		} else if !ok && rewindErr && c.Op != "T" && last.beh.Kind == "S" && last.beh.Code == 401 {
			// the auth client answers a challenge it would have to re-send for with the rewind error:
			// after the first send (Basic/Bearer challenge), or - warm Bearer cache - after the
			// cached token was refused with any 401
			firstLast := sends[0][len(sends[0])-1].beh
			switch {
			case len(sends[1]) == 0 && (last.beh.Chal == 1 || last.beh.Chal == 2):
				ok = true
			case (c.Op == "W" || c.Op == "w") && len(sends[1]) > 0 && len(sends[2]) == 0 && firstLast.Code == 401 && firstLast.Chal == 2:
				ok = true
			}
		}
		if !ok {
			fail("wrong-result", fmt.Sprintf("last answer was %s", want))
		}
	}
}

// ---------------------------------------------------------------- policy decision points

type pointCase struct {
	Op       string `json:"op"`    // B (exponential backoff) | D (table backoff)
	Which    string `json:"which"` // D = retry.DefaultPolicy, P = parameters below
	Pred     string `json:"pred"`  // op D only: custom predicate spec ("" = DefaultPredicate)
	MaxRetry int    `json:"max_retry"`
	Min      int64  `json:"min"`
	Max      int64  `json:"max"`
	Base     int64  `json:"base"`
	FNum     int64  `json:"fnum"`
	FDen     int64  `json:"fden"`
	JNum     int64  `json:"jnum"`
	JDen     int64  `json:"jden"`
	Tbl      []int64 `json:"tbl"`
	Dflt     int64  `json:"dflt"`
	Attempt  int    `json:"attempt"`
	Out      behaviour `json:"out"`
}

func (c *pointCase) call() (seen string, d time.Duration, panicv any) {
	var pol retry.Policy
	switch {
	case c.Op == "D":
		sc := scriptCase{MaxRetry: c.MaxRetry, Min: c.Min, Max: c.Max, Tbl: c.Tbl, Dflt: c.Dflt, Pred: c.Pred}
		pol = sc.policy()
	case c.Which == "D":
		pol = retry.DefaultPolicy
	default:
		pol = &retry.GenericPolicy{Retryable: retry.DefaultPredicate,
			Backoff: retry.ExponentialBackoff(time.Duration(c.Base), float64(c.FNum)/float64(c.FDen), float64(c.JNum)/float64(c.JDen)),
			MinWait: time.Duration(c.Min), MaxWait: time.Duration(c.Max), MaxRetry: c.MaxRetry}
	}
	var resp *http.Response
	var rerr error
	if sh := c.Out.shape(); sh != nil {
		rerr = sh.err
	} else {
		resp = &http.Response{StatusCode: c.Out.Code, Header: http.Header{}, Body: http.NoBody}
		if c.Out.RetryAfter != "" {
			resp.Header.Set("Retry-After", c.Out.RetryAfter)
		}
	}
	defer func() {
		if r := recover(); r != nil {
			seen, panicv = "PANIC", r
		}
	}()
	d, err := pol.Retry(c.Attempt, resp, rerr)
	switch {
	case err != nil:
		return "FAIL", d, nil
	case d < 0:
		return "STOP", d, nil
	}
	return fmt.Sprintf("W%d", int64(d)), d, nil
}

func pointCaseRun(c *pointCase) {
	id := run.NewID()
	seen, d, pv := c.call()
	if c.Op == "D" {
		run.Case(id, fmt.Sprintf("D %s %d %d %d %s %d %d %s", predToken(c.Pred), c.MaxRetry, c.Min, c.Max, joinInts(c.Tbl), c.Dflt, c.Attempt, c.Out.outString()), seen)
	} else {
		run.Case(id, fmt.Sprintf("B %s %d %d %d %d %d %d %d %d %d %s %s", c.Which, c.MaxRetry, c.Min, c.Max, c.Base, c.FNum, c.FDen, c.JNum, c.JDen,
			c.Attempt, c.Out.outString(), seen), "YES")
	}
	run.Count("point_" + c.Op + c.Which)
	run.Count("point_seen_" + strings.TrimRight(seen, "-0123456789"))
	if seen != "STOP" {
		js, _ := json.Marshal(c)
		run.Nontrivial(string(js))
	}
	if len(run.Samples) < 5 && seen[0] == 'W' && c.Op == "B" && c.Attempt > 0 {
		run.Sample(map[string]any{"case": c, "observed": seen})
	}
	maxRetry, min, max := c.MaxRetry, c.Min, c.Max
	if c.Op == "B" && c.Which == "D" {
		// the default policy's own bounds ("its minimum and maximum wait")
		var ok bool
		if maxRetry, min, max, ok = defaultNumbers(); !ok {
			return
		}
	}
	fail := func(sig, msg string) {
		run.OracleFail(id, sig, fmt.Sprintf("%s: %s; Retry(%d, %s) = %s", sig, msg, c.Attempt, c.Out.outString(), seen), c)
	}
	if pv != nil {
		fail("backoff-panic", fmt.Sprint(pv))
		return
	}
	if c.Attempt >= maxRetry && seen != "STOP" {
		fail("maxretry-ignored", fmt.Sprintf("attempt %d >= MaxRetry %d", c.Attempt, maxRetry))
	}
	if !retryableTruth(c.Pred, c.Out) && seen[0] == 'W' {
		fail("nonretryable-retried", "the answer is not retryable")
	}
	if seen[0] == 'W' && min <= max && (int64(d) < min || int64(d) > max) {
		fail("pause-bounds", fmt.Sprintf("pause %d outside [%d,%d]", int64(d), min, max))
	}
	// Retry-After on 429 honoured within the bounds
	if c.Op == "B" && seen[0] == 'W' && c.Out.Kind == "S" && c.Out.Code == 429 && min <= max {
		if n, err := strconv.ParseInt(c.Out.RetryAfter, 10, 64); err == nil && n > 0 && n < math.MaxInt64/int64(time.Second) {
			want := n * int64(time.Second)
			if want < min {
				want = min
			}
			if want > max {
				want = max
			}
			if int64(d) != want {
				fail("retry-after", fmt.Sprintf("Retry-After %q: pause %d, want %d", c.Out.RetryAfter, int64(d), want))
			}
		}
	}
}

// defaultNumbers reads the bounds of retry.DefaultPolicy from the object itself.
func defaultNumbers() (maxRetry int, min, max int64, ok bool) {
	gp, ok := retry.DefaultPolicy.(*retry.GenericPolicy)
	if !ok {
		return 0, 0, 0, false
	}
	return gp.MaxRetry, int64(gp.MinWait), int64(gp.MaxWait), true
}

// ---------------------------------------------------------------- generators

var statusPool = []int{200, 201, 202, 204, 400, 401, 403, 404, 405, 408, 409, 416, 429, 499, 500, 501, 502, 503, 504, 599, 0, 600}
// Retry-After values: plain non-negative integers, and values no reasonable reading turns into
// a delay.  (Left out on purpose: "+3", padded " 3", HTTP-dates -- honouring or rejecting them is
// a legitimate choice the model should not pin down.)
var retryAfterPool = []string{"", "", "", "1", "2", "120", "0", "-5", "abc", "99999999999999999999", "9223372036", "9223372037", "3.5", "0x10", "1_0", "007", "-", "18446744073709551617", "-99999999999999999999", "5s", "٣",
	// strconv.ParseInt's own reading (the code as written): a sign is accepted, blanks are not;
	// an HTTP-date is not understood (not honoured: falls back to the exponential backoff)
	"+3", "+", " 3", "3 ", "Wed, 21 Oct 2015 07:28:00 GMT",
	// ParseUint gives up at the point of uint64 overflow, before it sees the rest
	"99999999999999999999x", "18446744073709551616 seconds", "9223372036854775808x"}

func genBehaviour(r *common.Rand, forAuth bool, evenLat bool) behaviour {
	b := behaviour{Kind: "S", Read: -1}
	switch x := r.Intn(20); {
	case x < 1:
		b.Kind = "TO"
	case x < 4:
		b.Kind, b.Err = "E", common.Pick(r, errShapes).name
	case x < 11:
		b.Code = common.Pick(r, []int{503, 500, 502, 504, 429, 408, 599, 0})
	case x < 14 && forAuth:
		b.Code = 401
		b.Chal = common.Pick(r, []int{1, 1, 2, 2, 3, 0})
	default:
		b.Code = common.Pick(r, statusPool)
		if b.Code == 401 && forAuth {
			b.Chal = common.Pick(r, []int{1, 2, 3, 0})
		}
	}
	if b.Kind == "S" && b.Code == 429 && r.Chance(1, 2) {
		b.RetryAfter = common.Pick(r, retryAfterPool)
	}
	if r.Chance(1, 3) {
		b.Read = r.Intn(12)
	}
	if r.Chance(1, 2) {
		b.Lat = int64(r.Intn(500)) * 2
	}
	return b
}

func genPred(r *common.Rand) string {
	var tbl []string
	seen := map[int]bool{}
	for i := r.Intn(5); i > 0; i-- {
		code := common.Pick(r, statusPool)
		if !seen[code] {
			seen[code] = true
			tbl = append(tbl, fmt.Sprintf("%d%c", code, "RRSF"[r.Intn(4)]))
		}
	}
	t := "-"
	if len(tbl) > 0 {
		t = strings.Join(tbl, ",")
	}
	return fmt.Sprintf("%s;d%c;e%c", t, "SSSRF"[r.Intn(5)], "RSF"[r.Intn(3)])
}

func genDuration(r *common.Rand) int64 {
	switch r.Intn(6) {
	case 0:
		return 0
	case 1:
		return int64(r.Intn(50)) * 2
	case 2:
		return int64(r.Intn(5000)) * 2
	case 3:
		return -int64(r.Intn(100)) * 2
	case 4:
		return int64(r.Intn(1000)) * 2_000_000
	}
	return int64(r.Intn(1 << 30)) * 2
}

func genScript(r *common.Rand, big bool) *scriptCase {
	c := &scriptCase{Op: common.Pick(r, []string{"T", "T", "T", "A", "A", "A", "W", "W", "V", "V", "U", "U", "u", "X", "X", "Q", "Q", "Q", "Y", "y", "Z", "Z", "w", "w"}), Cancel: -1}
	c.MaxRetry = common.Pick(r, []int{0, 1, 2, 3, 3, 5, 5, 8, -1})
	c.Min = genDuration(r)
	if c.Min < 0 && r.Chance(3, 4) {
		c.Min = -c.Min
	}
	c.Max = c.Min + genDuration(r)
	if r.Chance(1, 12) {
		c.Max = c.Min - 2 - int64(r.Intn(100))*2 // MinWait > MaxWait
	}
	n := r.Intn(5)
	for i := 0; i < n; i++ {
		c.Tbl = append(c.Tbl, genDuration(r))
	}
	c.Dflt = genDuration(r)
	if r.Chance(1, 4) {
		c.Pred = genPred(r)
		if c.Op != "T" {
			// the token fetch of a Bearer challenge goes through the same transport: its 200 must
			// not be retried (the model treats the fetch as instantaneous); first match wins
			if strings.HasPrefix(c.Pred, "-;") {
				c.Pred = "200S" + c.Pred[1:]
			} else {
				c.Pred = "200S," + c.Pred
			}
		}
	}
	c.Body = common.Pick(r, []string{"N", "B", "R", "R", "R", "O", "O", "G"})
	if c.Body == "G" {
		c.Body = fmt.Sprintf("G%d", r.Intn(4))
	}
	if c.Body != "N" && c.Body != "B" {
		sz := r.Intn(24)
		if r.Chance(1, 10) {
			sz = 0
		} else if r.Chance(1, 10) {
			sz = 100 + r.Intn(3000)
		}
		d := make([]byte, sz)
		for i := range d {
			d[i] = byte(r.Intn(256))
		}
		c.Data = hex.EncodeToString(d)
		if big {
			c.Data = ""
			c.BigLen = 65536 + r.Intn(1<<20)
		}
	}
	if c.Body != "N" && c.Body != "B" && r.Chance(1, 3) {
		c.UnknownLen = true
	}
	if r.Chance(1, 2) {
		c.Method = common.Pick(r, []string{"POST", "PATCH", "GET", "DELETE", "HEAD"})
	}
	if c.Op == "T" && r.Chance(1, 5) {
		c.PreAuth = true
	}
	if (c.Body == "R" || c.Body == "O") && !c.UnknownLen && !c.PreAuth && c.Method == "" && r.Chance(1, 3) {
		// manifest push through the Repository: M = auth client, m = plain retrying client
		c.Manifest = map[string]string{"A": "M", "T": "m"}[c.Op]
		if c.Manifest != "" && c.BigLen == 0 && r.Chance(1, 3) {
			// an OCI image manifest without subject (valid JSON: the client looks for a subject after the push)
			c.Manifest = map[string]string{"M": "I", "m": "i"}[c.Manifest]
			c.Data = hex.EncodeToString([]byte(indexedManifestJSON))
		}
	}
	ns := r.Intn(2*(maxInt(c.MaxRetry, 0)+1) + 3)
	for i := 0; i < ns; i++ {
		c.Script = append(c.Script, genBehaviour(r, c.Op != "T", true))
	}
	// partial reads relative to the body: around the middle, the last byte, buffer-sized pieces
	if n := len(c.Data) / 2; n > 12 || c.BigLen > 0 {
		if c.BigLen > 0 {
			n = c.BigLen
		}
		for i := range c.Script {
			if c.Script[i].Read >= 0 && r.Chance(2, 3) {
				c.Script[i].Read = common.Pick(r, []int{n - 1, n / 2, n/2 + 1, 512, 4096, 32 * 1024, 32*1024 + 1, n - 4096})
				if c.Script[i].Read < 0 || c.Script[i].Read > n {
					c.Script[i].Read = n / 3
				}
			}
		}
	}
	if c.Op == "Y" || c.Op == "y" {
		c.Body = "O" // the fallback upload of a mount reads from an io.ReadCloser
		if c.Data == "" && c.BigLen == 0 {
			c.Data = common.Pick(r, []string{"00010203", "0001020304"})
		}
	}
	if c.Op == "U" || c.Op == "u" || c.Op == "X" || c.Op == "Y" || c.Op == "y" || c.Op == "Z" {
		// blob push: some answers for the POST, its 202, some answers for the PUT, its 201
		if c.Body != "R" && c.Body != "O" {
			c.Body = common.Pick(r, []string{"R", "O"})
			if c.Data == "" && c.BigLen == 0 {
				c.Data = "00010203"
			}
		}
		c.UnknownLen, c.Method, c.PreAuth, c.Manifest = false, "", false, ""
		var sc []behaviour
		for i := r.Intn(3); i > 0; i-- {
			sc = append(sc, genBehaviour(r, c.Op != "u" && c.Op != "y", true))
		}
		sc = append(sc, behaviour{Kind: "S", Code: 202, Read: -1, Lat: int64(r.Intn(20)) * 2})
		for i := r.Intn(4); i > 0; i-- {
			sc = append(sc, genBehaviour(r, c.Op != "u" && c.Op != "y", true))
		}
		c.Script = append(sc, behaviour{Kind: "S", Code: 201, Read: -1})
	}
	if c.Op == "Z" {
		// a push whose POST (and sometimes PUT) is challenged, with a token service that needs a few attempts
		c.TokenPost = r.Chance(1, 2)
		if r.Chance(1, 2) {
			c.Script = append([]behaviour{{Kind: "S", Code: 401, Chal: 2, Read: -1, Lat: int64(r.Intn(10)) * 2}}, c.Script...)
		} else {
			// the POST is accepted without credentials: the PUT is challenged and fetches the token itself
			for i, b := range c.Script {
				if b.Kind == "S" && b.Code == 202 {
					rest := append([]behaviour{{Kind: "S", Code: 401, Chal: 2, Read: common.Pick(r, []int{-1, 2}), Lat: int64(r.Intn(10)) * 2}}, c.Script[i+1:]...)
					c.Script = append(c.Script[:i+1:i+1], rest...)
					break
				}
			}
		}
		for i := r.Intn(5); i > 0; i-- {
			b := genBehaviour(r, false, true)
			if b.Kind == "S" && b.Code >= 300 && b.Code < 400 {
				b.Code = 503
			}
			if b.Read >= 0 {
				b.Read = r.Intn(130)
			}
			c.TokenScript = append(c.TokenScript, b)
		}
		if r.Chance(3, 4) {
			c.TokenScript = append(c.TokenScript, behaviour{Kind: "S", Code: 200, Read: -1, Lat: int64(r.Intn(30)) * 2})
		}
	}
	if c.Op == "Q" {
		// a Bearer challenge early on, and a token service that needs a few attempts
		c.Manifest, c.PreAuth = "", false
		if (c.Body == "R" || c.Body == "O") && c.BigLen == 0 && r.Chance(1, 4) {
			// a manifest push (buffered for the auth client) whose token request is scripted
			c.Manifest, c.UnknownLen, c.Method = "M", false, ""
		}
		c.TokenPost = r.Chance(1, 2)
		k := r.Intn(3)
		for len(c.Script) <= k {
			c.Script = append(c.Script, genBehaviour(r, true, true))
		}
		c.Script[k] = behaviour{Kind: "S", Code: 401, Chal: 2, Read: common.Pick(r, []int{-1, -1, 3}), Lat: int64(r.Intn(10)) * 2}
		for i := 0; i < k; i++ {
			if !retryableTruth(c.Pred, c.Script[i]) {
				c.Script[i] = behaviour{Kind: "S", Code: 503, Read: -1}
			}
		}
		for i := r.Intn(5); i > 0; i-- {
			b := genBehaviour(r, false, true)
			if b.Kind == "S" && b.Code >= 300 && b.Code < 400 {
				b.Code = 503
			}
			if b.Read >= 0 {
				b.Read = r.Intn(120)
			}
			c.TokenScript = append(c.TokenScript, b)
		}
		if r.Chance(2, 3) {
			c.TokenScript = append(c.TokenScript, behaviour{Kind: "S", Code: 200, Read: -1, Lat: int64(r.Intn(30)) * 2})
		}
	}
	if c.Op == "w" {
		c.Manifest, c.PreAuth = "", false
		c.TokenPost = r.Chance(1, 2)
		for i := r.Intn(4); i > 0; i-- {
			b := genBehaviour(r, false, true)
			if b.Kind == "S" && b.Code >= 300 && b.Code < 400 {
				b.Code = 503
			}
			if b.Read >= 0 {
				b.Read = r.Intn(120)
			}
			c.TokenScript = append(c.TokenScript, b)
		}
		if r.Chance(3, 4) {
			c.TokenScript = append(c.TokenScript, behaviour{Kind: "S", Code: 200, Read: -1, Lat: int64(r.Intn(30)) * 2})
		}
	}
	if (c.Op == "W" || c.Op == "w") && len(c.Script) >= 2 {
		// exercise the cached-token re-send and the fresh-token third send
		if r.Chance(1, 2) {
			c.Script[0].Kind, c.Script[0].Code, c.Script[0].Chal = "S", 401, 2
			if r.Chance(1, 2) {
				c.Script[1].Kind, c.Script[1].Code, c.Script[1].Chal = "S", 401, common.Pick(r, []int{2, 2, 1, 0})
			}
		}
	}
	if c.Manifest != "" {
		// a manifest push succeeds with 201 only
		c.Script = append(c.Script, behaviour{Kind: "S", Code: 201, Read: -1})
	}
	if r.Chance(1, 4) {
		// cancellation at an odd instant (all other instants are even: the context never ends at
		// the instant a timer of positive length fires); a third of the cases has zero-length
		// pauses, where the timer and an already ended context are ready together
		zero := r.Chance(1, 3)
		if zero {
			c.Min, c.Max = 0, int64(r.Intn(3))*2
			for i := range c.Tbl {
				c.Tbl[i] = 0
			}
			if r.Chance(2, 3) {
				c.Dflt = 0
			}
			for i := range c.Script {
				if c.Script[i].Lat == 0 && r.Chance(1, 2) {
					c.Script[i].Lat = 2 + int64(r.Intn(20))*2 // give the context something to end in
				}
			}
		} else if c.Min <= 0 {
			c.Min = 2 + int64(r.Intn(100))*2
		}
		if c.Max < c.Min {
			c.Max = c.Min + int64(r.Intn(1000))*2
		}
		// aim at the span the call can take (walk the script with the table)
		span := int64(2)
		for i, b := range c.Script {
			span += b.Lat
			if i < c.MaxRetry {
				d := c.Dflt
				if i < len(c.Tbl) {
					d = c.Tbl[i]
				}
				if d < c.Min {
					d = c.Min
				}
				if d > c.Max {
					d = c.Max
				}
				span += d
			}
			if !retryableTruth(c.Pred, b) && !(b.Code == 401 && c.Op != "T") {
				break
			}
		}
		if span > 1<<40 {
			span = 1 << 40
		}
		c.Cancel = int64(r.U64()%uint64(span+span/4))/2*2 + 1
		c.Deadline = r.Chance(1, 2)
		if r.Chance(1, 10) {
			c.Cancel = -3 // the context has ended before the call
		}
	}
	return c
}

func maxInt(a, b int) int {
	if a > b {
		return a
	}
	return b
}

func genPoint(r *common.Rand) *pointCase {
	c := &pointCase{Op: "B", Which: "P", FDen: 1, JDen: 1}
	if r.Chance(1, 6) {
		c.Op = "D"
		if r.Chance(1, 2) {
			c.Pred = genPred(r)
		}
	} else if r.Chance(1, 6) {
		c.Which = "D"
	}
	c.MaxRetry = common.Pick(r, []int{0, 1, 3, 5, 5, 10, 40, 80, 80, -1})
	c.Attempt = r.Intn(maxInt(c.MaxRetry, 1))
	if r.Chance(1, 8) {
		c.Attempt = c.MaxRetry + r.Intn(3)
	} else if r.Chance(1, 10) {
		c.Attempt = r.Intn(75)
	}
	if c.Which == "D" {
		c.Attempt = r.Intn(8)
	}
	switch r.Intn(4) {
	case 0:
		c.Min, c.Max = 0, math.MaxInt64
	case 1:
		c.Min, c.Max = int64(200*time.Millisecond), int64(3*time.Second)
	case 2:
		c.Min = genDuration(r)
		c.Max = c.Min + genDuration(r)
	default:
		c.Min, c.Max = math.MinInt64, math.MaxInt64
	}
	c.Base = common.Pick(r, []int64{0, 1, 3, 250_000_000, 1_000_000_000, 3_600_000_000_000, int64(r.Intn(1 << 30)), -250_000_000})
	f := common.Pick(r, [][2]int64{{0, 1}, {1, 2}, {1, 1}, {3, 2}, {2, 1}, {2, 1}, {2, 1}, {10, 1}, {-2, 1}, {int64(r.Intn(40)), 8}})
	c.FNum, c.FDen = f[0], f[1]
	j := common.Pick(r, [][2]int64{{0, 1}, {0, 1}, {1, 10}, {1, 10}, {1, 2}, {1, 1}, {2, 1}, {-1, 10}, {1, 1_000_000_000}, {int64(r.Intn(100)), 64}})
	c.JNum, c.JDen = j[0], j[1]
	n := r.Intn(4)
	for i := 0; i < n; i++ {
		c.Tbl = append(c.Tbl, genDuration(r))
	}
	c.Dflt = genDuration(r)
	c.Out = genBehaviour(r, false, true)
	c.Out.Read, c.Out.Lat = -1, 0
	if r.Chance(1, 4) {
		c.Out = behaviour{Kind: "S", Code: 429, RetryAfter: common.Pick(r, retryAfterPool), Read: -1}
	}
	return c
}

var enumAlphabet = []behaviour{
	{Kind: "S", Code: 503, Read: -1}, {Kind: "S", Code: 429, RetryAfter: "1", Read: 2, Lat: 10}, {Kind: "TO", Read: -1, Lat: 6}, {Kind: "ER", Read: 1}, {Kind: "E", Err: "op-emfile", Read: -1}, {Kind: "E", Err: "url-net10", Read: 2},
	{Kind: "S", Code: 401, Chal: 1, Read: -1}, {Kind: "S", Code: 401, Chal: 2, Read: 3, Lat: 4}, {Kind: "S", Code: 200, Read: -1}, {Kind: "S", Code: 404, Read: 0},
	{Kind: "S", Code: 201, Read: -1},
}

// enumScripts: every behaviour sequence up to maxLen x body kinds x stacks; with
// allCancel, additionally every odd cancellation instant up to the end of the
// uncancelled call (and a little beyond), alternating cancel / deadline.
func enumScripts(t *testing.T, maxLen int, allCancel bool) {
	var rec func(prefix []behaviour)
	rec = func(prefix []behaviour) {
		if len(prefix) > 0 {
			for _, op := range []string{"T", "A", "W", "V"} {
				for _, body := range []string{"N", "B", "R", "O", "G1"} {
					c := &scriptCase{Op: op, MaxRetry: 2, Min: 100, Max: 1000, Tbl: []int64{50, 5000}, Dflt: 300, Cancel: -1, Body: body,
						Script: append([]behaviour(nil), prefix...)}
					if body != "N" && body != "B" {
						c.Data = "0102030405"
						c.UnknownLen = len(prefix)%2 == 0
					}
					if !allCancel {
						scriptCaseRun(t, c)
						run.Count("enumerated")
						if (op == "A" || op == "T") && (body == "R" || body == "O") && prefix[len(prefix)-1].Code == 201 {
							// the same answers against a manifest push (auth client: buffering rule)
							m := *c
							m.UnknownLen, m.Manifest = false, map[string]string{"A": "M", "T": "m"}[op]
							scriptCaseRun(t, &m)
							im := m
							im.Manifest, im.Data = map[string]string{"A": "I", "T": "i"}[op], hex.EncodeToString([]byte(indexedManifestJSON))
							scriptCaseRun(t, &im)
							run.Count("enumerated_manifest")
						}
						continue
					}
					c.Min, c.Max, c.Tbl, c.Dflt = 4, 20, []int64{2, 50}, 8
					if len(prefix)%2 == 0 {
						c.Min, c.Max, c.Tbl, c.Dflt = 0, 20, []int64{0, 0}, 0 // zero-length pauses
					}
					end := execScript(t, c).end
					for tc := int64(-3); tc <= end+3; tc += 2 {
						if tc == -1 {
							continue
						}
						cc := *c
						cc.Cancel, cc.Deadline = tc, (tc/2)%2 == 1
						scriptCaseRun(t, &cc)
						run.Count("enumerated_cancel_instants")
					}
				}
			}
		}
		if len(prefix) == maxLen {
			return
		}
		for _, b := range enumAlphabet {
			if b.Kind == "S" && b.Code == 401 && false {
				continue
			}
			rec(append(prefix, b))
		}
	}
	rec(nil)
}

var uploadAlphabet = []behaviour{
	{Kind: "S", Code: 503, Read: 2}, {Kind: "S", Code: 401, Chal: 2, Read: -1}, {Kind: "S", Code: 401, Chal: 1, Read: 1},
	{Kind: "S", Code: 202, Read: -1, Lat: 4}, {Kind: "S", Code: 201, Read: -1}, {Kind: "TO", Read: -1}, {Kind: "S", Code: 404, Read: 0},
}

// enumUploads: every behaviour sequence up to maxLen against a blob push, both body kinds, both clients
func enumUploads(t *testing.T, maxLen int) {
	var rec func(prefix []behaviour)
	rec = func(prefix []behaviour) {
		if len(prefix) > 0 {
			for _, op := range []string{"U", "u", "X", "Y", "y"} {
				for _, body := range []string{"R", "O"} {
					if (op == "Y" || op == "y") && body == "R" {
						continue
					}
					scriptCaseRun(t, &scriptCase{Op: op, MaxRetry: 2, Min: 100, Max: 1000, Tbl: []int64{50, 5000}, Dflt: 300, Cancel: -1,
						Body: body, Data: "0102030405", Script: append([]behaviour(nil), prefix...)})
					run.Count("enumerated_uploads")
				}
			}
		}
		if len(prefix) == maxLen {
			return
		}
		for _, b := range uploadAlphabet {
			rec(append(prefix, b))
		}
	}
	rec(nil)
}

// ---------------------------------------------------------------- token requests through the same stack (oracle only)

// tokenScenario: a Bearer challenge makes the auth client fetch a token with an OAuth2 POST (form
// body) through the same retrying client; the token service fails a few times first.  The token
// request is a request "sent again" by the stack: same clauses (whole body on every attempt,
// attempts bounded, pauses within bounds, non-retryable answers not retried).
type tokenCase struct {
	Op          string      `json:"op"` // K
	MaxRetry    int         `json:"max_retry"`
	Min         int64       `json:"min"`
	Max         int64       `json:"max"`
	Tbl         []int64     `json:"tbl"`
	Dflt        int64       `json:"dflt"`
	TokenScript []behaviour `json:"token_script"`
	Data        string      `json:"data"`
}

func tokenScenario(t *testing.T, c *tokenCase) {
	id := run.NewID()
	data, _ := hex.DecodeString(c.Data)
	sc := &scriptCase{MaxRetry: c.MaxRetry, Min: c.Min, Max: c.Max, Tbl: c.Tbl, Dflt: c.Dflt}
	var tokenLog, regLog []attemptRec
	res := ""
	synctest.Test(t, func(t *testing.T) {
		srv := &server{start: time.Now(), tokenScripted: true, tokenScript: c.TokenScript,
			script: []behaviour{{Kind: "S", Code: 401, Chal: 2, Read: -1}, {Kind: "S", Code: 201, Read: -1}}}
		pol := sc.policy()
		hc := &http.Client{Transport: &retry.Transport{Base: srv, Policy: func() retry.Policy { return pol }}}
		ac := &auth.Client{Client: hc, Cache: auth.NewCache(), ForceAttemptOAuth2: true,
			Credential: auth.StaticCredential("registry.example", auth.Credential{Username: "u", Password: "p"})}
		req, err := http.NewRequest(http.MethodPut, "http://registry.example/v2/r/blobs/uploads/1", bytes.NewReader(data))
		if err != nil {
			panic(err)
		}
		resp, err := ac.Do(req)
		res = classify(resp, err, srv.lastShape, "")
		if resp != nil {
			resp.Body.Close()
		}
		tokenLog, regLog = srv.tokenLog, srv.log
	})
	run.Evaluations++
	run.Count("token_scenarios")
	run.Count(fmt.Sprintf("token_attempts_%d", len(tokenLog)))
	if len(tokenLog) > 1 {
		run.Nontrivial(fmt.Sprintf("token %+v", *c))
	}
	fail := func(sig, msg string) {
		run.OracleFail(id, sig, fmt.Sprintf("%s (token request): %s; result %s, %d token attempts", sig, msg, res, len(tokenLog)), c)
	}
	// the whole form on every attempt: the longest body read to EOF is the reference
	var full []byte
	for _, r := range tokenLog {
		if r.beh.Read < 0 && len(r.got) > len(full) {
			full = r.got
		}
	}
	if full != nil {
		f := string(full)
		if !strings.Contains(f, "grant_type=password") || !strings.Contains(f, "username=u") || !strings.Contains(f, "password=p") {
			fail("body-truncated", fmt.Sprintf("the token form %q lacks its fields", f))
		}
		for i, r := range tokenLog {
			want := full
			if r.beh.Read >= 0 && r.beh.Read < len(want) {
				want = want[:r.beh.Read]
			}
			if !bytes.Equal(r.got, want) {
				fail("body-truncated", fmt.Sprintf("attempt %d received %q, the form is %q and the service read up to %d", i, r.got, full, r.beh.Read))
				break
			}
			if r.clen != int64(len(full)) || r.method != http.MethodPost || r.url != tokenLog[0].url || r.ctype != tokenLog[0].ctype {
				fail("request-changed", fmt.Sprintf("attempt %d: %s %s Content-Length %d Content-Type %q", i, r.method, r.url, r.clen, r.ctype))
				break
			}
		}
	}
	limit := c.MaxRetry + 1
	if limit < 1 {
		limit = 1
	}
	if len(tokenLog) > limit {
		fail("too-many-attempts", fmt.Sprintf("%d attempts, MaxRetry=%d", len(tokenLog), c.MaxRetry))
	}
	for i := 0; i+1 < len(tokenLog); i++ {
		if !retryableTruth("", tokenLog[i].beh) {
			fail("nonretryable-retried", fmt.Sprintf("attempt %d got %s and was followed by another attempt", i, outcomeTruth("", tokenLog[i].beh)))
		}
		pause := tokenLog[i+1].t - (tokenLog[i].t + tokenLog[i].beh.Lat)
		if c.Min <= c.Max && (pause < c.Min || pause > c.Max) {
			fail("pause-bounds", fmt.Sprintf("pause after attempt %d is %d, outside [%d,%d]", i, pause, c.Min, c.Max))
		}
	}
	// the registry: the request again, whole, after the token arrived
	for i, r := range regLog {
		if !bytes.Equal(r.got, data) {
			fail("body-truncated", fmt.Sprintf("registry request %d received %d of %d bytes", i, len(r.got), len(data)))
		}
	}
}

func genToken(r *common.Rand) *tokenCase {
	c := &tokenCase{Op: "K", MaxRetry: common.Pick(r, []int{0, 1, 2, 3, 5}), Min: int64(r.Intn(50)) * 2, Dflt: int64(r.Intn(500)) * 2}
	c.Max = c.Min + int64(r.Intn(2000))*2
	for i := r.Intn(3); i > 0; i-- {
		c.Tbl = append(c.Tbl, int64(r.Intn(5000))*2)
	}
	for i := r.Intn(5); i > 0; i-- {
		b := genBehaviour(r, false, true)
		if b.Kind == "S" && (b.Code == 200 || b.Code >= 300 && b.Code < 400) {
			b.Code = 503
		}
		if b.Read >= 0 {
			b.Read = r.Intn(80)
		}
		c.TokenScript = append(c.TokenScript, b)
	}
	d := make([]byte, r.Intn(40))
	for i := range d {
		d[i] = byte(r.Intn(256))
	}
	c.Data = hex.EncodeToString(d)
	return c
}

// ---------------------------------------------------------------- real net/http transport (oracle only)

// realTransportScenario: the same stack over net/http's own Transport and an httptest server
// (HTTP/1.1, real sockets, asynchronous body writer): large bodies, answers sent before the
// body was read (503 / 401 challenge), then a handler that reads to EOF.  Judged: whenever the
// registry read a request to the end it got the whole original body and the announced
// Content-Length; nothing about timing or the final status (an early answer may legitimately
// surface as a connection error).
type realCase struct {
	Op      string `json:"op"` // R
	Size    int    `json:"size"`
	OneShot bool   `json:"one_shot"`
	Plan    []int  `json:"plan"` // per request: status; negative = answer -status without reading the body
	Auth    bool   `json:"auth"`
}

func realTransportScenario(c *realCase) {
	// a scenario takes milliseconds; one that does not finish in 20 s is run once more (loaded
	// machine?) and reported as wedged if it hangs again
	if realTransportOnce(c, 20*time.Second) == "HANG" && realTransportOnce(c, 40*time.Second) == "HANG" {
		run.OracleFail(run.NewID(), "wedged", "wedged: the request over the real transport did not return (twice)", c)
	}
}

func realTransportOnce(c *realCase, limit time.Duration) string {
	id := run.NewID()
	wd := watchdog(id, c)
	defer wd.Stop()
	data := make([]byte, c.Size)
	for i := range data {
		data[i] = byte((i*31 + i/255) % 251)
	}
	want := sha256.Sum256(data)
	type seen struct {
		complete bool
		n        int64
		sum      [32]byte
		clen     int64
		readErr  error
	}
	var mu sync.Mutex
	var log []seen
	pos := 0
	srv := httptest.NewServer(http.HandlerFunc(func(w http.ResponseWriter, r *http.Request) {
		mu.Lock()
		st := 201
		if pos < len(c.Plan) {
			st = c.Plan[pos]
		}
		pos++
		mu.Unlock()
		if st < 0 {
			st = -st
		} else {
			h := sha256.New()
			n, err := io.Copy(h, r.Body)
			var s seen
			s.complete, s.n, s.clen, s.readErr = err == nil, n, r.ContentLength, err
			copy(s.sum[:], h.Sum(nil))
			mu.Lock()
			log = append(log, s)
			mu.Unlock()
		}
		if st == 401 {
			w.Header().Set("Www-Authenticate", `Basic realm="real"`)
		}
		w.WriteHeader(st)
	}))
	defer srv.Close()
	tr := http.DefaultTransport.(*http.Transport).Clone()
	defer tr.CloseIdleConnections()
	pol := &retry.GenericPolicy{Retryable: retry.DefaultPredicate, Backoff: func(int, *http.Response) time.Duration { return time.Millisecond },
		MinWait: time.Millisecond, MaxWait: 5 * time.Millisecond, MaxRetry: 4}
	hc := &http.Client{Transport: &retry.Transport{Base: tr, Policy: func() retry.Policy { return pol }}}
	var client remote.Client = hc
	if c.Auth {
		host := strings.TrimPrefix(srv.URL, "http://")
		client = &auth.Client{Client: hc, Cache: auth.NewCache(), Credential: auth.StaticCredential(host, auth.Credential{Username: "u", Password: "p"})}
	}
	var body io.Reader = bytes.NewReader(data)
	if c.OneShot {
		body = &oneShot{bytes.NewReader(data)}
	}
	rctx, rcancel := context.WithTimeout(context.Background(), limit)
	defer rcancel()
	req, err := http.NewRequestWithContext(rctx, http.MethodPut, srv.URL+"/v2/r/blobs/uploads/1", body)
	if err != nil {
		panic(err)
	}
	req.ContentLength = int64(len(data))
	resp, err := client.Do(req)
	if err != nil && rctx.Err() != nil {
		return "HANG"
	}
	res := "ERR"
	if err == nil {
		res = fmt.Sprintf("RESP%d", resp.StatusCode)
		io.Copy(io.Discard, resp.Body)
		resp.Body.Close()
	}
	run.Evaluations++
	run.Count("real_transport")
	run.Count("real_transport_" + res)
	mu.Lock()
	defer mu.Unlock()
	for i, s := range log {
		switch {
		case s.complete && (s.n != int64(len(data)) || s.sum != want):
			run.OracleFail(id, "real-body-truncated", fmt.Sprintf("real transport: request %d read to EOF delivered %d bytes (want %d, digest ok=%v); result %s", i, s.n, len(data), s.sum == want, res), c)
		case s.clen != int64(len(data)):
			run.OracleFail(id, "request-changed", fmt.Sprintf("real transport: request %d announced Content-Length %d, want %d", i, s.clen, len(data)), c)
		}
		if s.complete {
			run.Count("real_transport_complete_bodies")
		}
	}
	if len(log) > 1 {
		run.Nontrivial(fmt.Sprintf("real %+v", *c))
	}
	return res
}

func genReal(r *common.Rand) *realCase {
	c := &realCase{Op: "R", Size: (1 + r.Intn(8)) << 20, OneShot: r.Chance(1, 4), Auth: r.Chance(1, 2)}
	for i := r.Intn(4); i > 0; i-- {
		c.Plan = append(c.Plan, common.Pick(r, []int{503, -503, 429, -429, 500}))
	}
	if c.Auth && r.Chance(2, 3) {
		c.Plan = append(c.Plan, common.Pick(r, []int{401, -401}))
		if r.Chance(1, 2) {
			c.Plan = append(c.Plan, common.Pick(r, []int{503, -503}))
		}
	}
	c.Plan = append(c.Plan, 201)
	return c
}

var tokenAlphabet = []behaviour{
	{Kind: "S", Code: 200, Read: -1, Lat: 4}, {Kind: "S", Code: 503, Read: 7}, {Kind: "S", Code: 403, Read: -1}, {Kind: "TO", Read: -1, Lat: 2},
	{Kind: "E", Err: "op-emfile", Read: 0}, {Kind: "S", Code: 429, RetryAfter: "1", Read: -1},
}

// enumTokens: a Bearer challenge after every short prefix of retryable answers, every sequence of
// token-service answers up to maxLen, GET and POST token requests, three body kinds
func enumTokens(t *testing.T, maxLen int) {
	var rec func(ts []behaviour)
	rec = func(ts []behaviour) {
		for _, pre := range [][]behaviour{nil, {{Kind: "S", Code: 503, Read: 2}}} {
			for _, body := range []string{"N", "R", "O"} {
				for _, post := range []bool{false, true} {
					c := &scriptCase{Op: "Q", MaxRetry: 2, Min: 100, Max: 1000, Tbl: []int64{50, 5000}, Dflt: 300, Cancel: -1, Body: body,
						TokenPost: post, TokenScript: append([]behaviour(nil), ts...)}
					if body != "N" {
						c.Data = "0102030405"
					}
					c.Script = append(append([]behaviour(nil), pre...), behaviour{Kind: "S", Code: 401, Chal: 2, Read: -1},
						behaviour{Kind: "S", Code: 502, Read: 1}, behaviour{Kind: "S", Code: 201, Read: -1})
					scriptCaseRun(t, c)
					run.Count("enumerated_tokens")
				}
			}
		}
		if len(ts) == maxLen {
			return
		}
		for _, b := range tokenAlphabet {
			rec(append(ts, b))
		}
	}
	rec(nil)
}

// enumPushTokens: a few push shapes (POST challenged / PUT challenged / both retried / Basic) against
// every token-service sequence up to maxLen, both body kinds, GET and POST token requests
func enumPushTokens(t *testing.T, maxLen int) {
	c401 := behaviour{Kind: "S", Code: 401, Chal: 2, Read: -1}
	s202 := behaviour{Kind: "S", Code: 202, Read: -1, Lat: 4}
	s201 := behaviour{Kind: "S", Code: 201, Read: -1}
	shapes := [][]behaviour{
		{c401, s202, s201},
		{s202, c401, s201},
		{{Kind: "S", Code: 503, Read: -1}, c401, s202, {Kind: "S", Code: 502, Read: 2}, s201},
		{s202, {Kind: "S", Code: 401, Chal: 1, Read: 1}, s201},
		{c401, s202, c401, s201},
	}
	alphabet := []behaviour{{Kind: "S", Code: 200, Read: -1, Lat: 2}, {Kind: "S", Code: 503, Read: 9}, {Kind: "S", Code: 403, Read: -1}, {Kind: "TO", Read: -1}}
	var rec func(ts []behaviour)
	rec = func(ts []behaviour) {
		for _, sh := range shapes {
			for _, body := range []string{"R", "O"} {
				for _, post := range []bool{false, true} {
					scriptCaseRun(t, &scriptCase{Op: "Z", MaxRetry: 2, Min: 100, Max: 1000, Tbl: []int64{50, 5000}, Dflt: 300, Cancel: -1, Body: body,
						Data: "0102030405", TokenPost: post, TokenScript: append([]behaviour(nil), ts...), Script: append([]behaviour(nil), sh...)})
					run.Count("enumerated_push_tokens")
				}
			}
		}
		if len(ts) == maxLen {
			return
		}
		for _, b := range alphabet {
			rec(append(ts, b))
		}
	}
	rec(nil)
}

// ---------------------------------------------------------------- entry point

// replayCases re-runs the "cases" array of a replay/corpus file.  (Not via
// common.ReadReplay: that goes through float64 and durations need all 64 bits.)
func replayCases(t *testing.T) {
	raw, err := os.ReadFile(run.Replay)
	if err != nil {
		panic(err)
	}
	var doc struct {
		Cases []json.RawMessage `json:"cases"`
	}
	if err := json.Unmarshal(raw, &doc); err != nil {
		panic(err)
	}
	for _, js := range doc.Cases {
		var head struct {
			Op string `json:"op"`
		}
		if err := json.Unmarshal(js, &head); err != nil {
			continue
		}
		switch head.Op {
		case "T", "A", "W", "w", "V", "U", "u", "X", "Q", "Y", "y", "Z":
			var c scriptCase
			if err := json.Unmarshal(js, &c); err != nil {
				panic(err)
			}
			scriptCaseRun(t, &c)
		case "I":
			var c struct {
				Input string `json:"input"`
			}
			if err := json.Unmarshal(js, &c); err != nil {
				panic(err)
			}
			parseIntCase(c.Input)
		case "K":
			var c tokenCase
			if err := json.Unmarshal(js, &c); err != nil {
				panic(err)
			}
			tokenScenario(t, &c)
		case "R":
			var c realCase
			if err := json.Unmarshal(js, &c); err != nil {
				panic(err)
			}
			realTransportScenario(&c)
		case "B", "D":
			var c pointCase
			if err := json.Unmarshal(js, &c); err != nil {
				panic(err)
			}
			if c.FDen == 0 {
				c.FDen = 1
			}
			if c.JDen == 0 {
				c.JDen = 1
			}
			pointCaseRun(&c)
		}
	}
}

func TestVerif(t *testing.T) {
	checkShapes()
	checkLibraryFacts()
	run.Rule = "a script counts when it led to more than one attempt (a retry or a re-send after a challenge); a policy point counts when the decision is not the trivial STOP"
	if run.Replay != "" {
		replayCases(t)
		return
	}
	r := run.Rand
	// fixed corner cases first
	for _, j := range [][2]int64{{0, 1}, {1, 10}, {-1, 10}} {
		for _, att := range []int{0, 1, 4, 40, 70} {
			pointCaseRun(&pointCase{Op: "B", Which: "P", MaxRetry: 100, Min: 0, Max: math.MaxInt64, Base: 250_000_000, FNum: 2, FDen: 1,
				JNum: j[0], JDen: j[1], Attempt: att, Out: behaviour{Kind: "S", Code: 503, Read: -1}})
		}
	}
	// every error shape against the default policy, the default predicate with a table backoff,
	// and the exponential backoff
	for _, sh := range errShapes {
		o := behaviour{Kind: "E", Err: sh.name, Read: -1}
		pointCaseRun(&pointCase{Op: "B", Which: "D", FDen: 1, JDen: 1, Attempt: 0, Out: o})
		pointCaseRun(&pointCase{Op: "D", Which: "P", FDen: 1, JDen: 1, MaxRetry: 3, Min: 10, Max: 1000, Dflt: 100, Attempt: 1, Out: o})
		pointCaseRun(&pointCase{Op: "B", Which: "P", MaxRetry: 3, Min: 0, Max: math.MaxInt64, Base: 250_000_000, FNum: 2, FDen: 1, JNum: 1, JDen: 10, Attempt: 2, Out: o})
		for _, body := range []string{"N", "R", "O"} {
			c := &scriptCase{Op: "T", MaxRetry: 2, Min: 100, Max: 1000, Dflt: 300, Cancel: -1, Body: body,
				Script: []behaviour{{Kind: "E", Err: sh.name, Read: -1}, {Kind: "S", Code: 200, Read: -1}}}
			if body != "N" {
				c.Data = "0102030405"
			}
			scriptCaseRun(t, c)
		}
	}
	for att := 0; att < 7; att++ {
		for _, o := range []behaviour{{Kind: "S", Code: 503, Read: -1}, {Kind: "TO", Read: -1}, {Kind: "S", Code: 429, RetryAfter: "1", Read: -1}, {Kind: "S", Code: 404, Read: -1}} {
			pointCaseRun(&pointCase{Op: "B", Which: "D", FDen: 1, JDen: 1, Attempt: att, Out: o})
		}
	}
	// small-scope exhaustive: every sequence of server behaviours up to a length, every body kind, both stacks
	enumScripts(t, run.Scale(3, 5), false)
	enumScripts(t, run.Scale(2, 4), true)
	// the default policy end to end (jitter is random: oracle only; the bounds are the
	// policy object's own MinWait/MaxWait/MaxRetry)
	if dmr, dmin, dmax, ok := defaultNumbers(); ok {
		for i := 0; i < run.Scale(300, 20000); i++ {
			c := genScript(r, false)
			c.DefaultPolicy, c.MaxRetry, c.Min, c.Max, c.Tbl, c.Dflt, c.Pred = true, dmr, dmin, dmax, nil, 0, ""
			if c.hasCancel() {
				// aim into the default policy's pauses; odd instant (a tie with a random pause is harmless:
				// the result is the context's error either way)
				c.Cancel = int64(r.Intn(int(dmax/1000)*3))*2000 + 1
			}
			scriptCaseRun(t, c)
		}
	}
	for i := 0; i < run.Scale(6, 120); i++ {
		realTransportScenario(genReal(r))
	}
	for i := 0; i < run.Scale(400, 20000); i++ {
		tokenScenario(t, genToken(r))
	}
	enumUploads(t, run.Scale(4, 5))
	enumTokens(t, run.Scale(2, 3))
	enumPushTokens(t, run.Scale(2, 4))
	nScripts := run.Scale(2500, 400000)
	nPoints := run.Scale(20000, 3000000)
	nBig := run.Scale(6, 200)
	for i := 0; i < nScripts; i++ {
		scriptCaseRun(t, genScript(r, false))
	}
	for i := 0; i < nBig; i++ {
		scriptCaseRun(t, genScript(r, true))
	}
	for i := 0; i < nPoints; i++ {
		pointCaseRun(genPoint(r))
	}
	for _, sv := range []string{"", "0", "-0", "+0", "9223372036854775807", "9223372036854775808", "-9223372036854775808", "-9223372036854775809",
		"18446744073709551615", "18446744073709551616", "99999999999999999999999", "-99999999999999999999999", "+", "-", "00012", "1_000", "0x1f", " 1", "1 "} {
		parseIntCase(sv)
	}
	for i := 0; i < run.Scale(3000, 200000); i++ {
		parseIntCase(genIntString(r))
	}
	coverageFloors(t)
}

// parseIntCase: strconv.ParseInt(s, 10, 64) as ExponentialBackoff uses it (error ignored) against the
// model's parse_int64 -- ties the hand-written integer reader of the model to the library.
func parseIntCase(sv string) {
	id := run.NewID()
	v, _ := strconv.ParseInt(sv, 10, 64)
	run.Case(id, "I "+common.Hex(sv), strconv.FormatInt(v, 10))
	run.Count("parse_int")
	if v != 0 {
		run.Count("parse_int_nonzero")
	}
}

func genIntString(r *common.Rand) string {
	var sb strings.Builder
	switch r.Intn(6) {
	case 0:
		sb.WriteString("-")
	case 1:
		sb.WriteString("+")
	}
	n := r.Intn(6)
	if r.Chance(1, 3) {
		n = 17 + r.Intn(6) // around the int64 range
	}
	for i := 0; i < n; i++ {
		sb.WriteByte(byte('0' + r.Intn(10)))
	}
	if r.Chance(1, 5) {
		s := sb.String()
		pos := r.Intn(len(s) + 1)
		return s[:pos] + common.Pick(r, []string{" ", "_", "x", ".", "-", "+", "e3", "٣", "\x00"}) + s[pos:]
	}
	return sb.String()
}

// coverageFloors: a run in which a stream produced (almost) nothing is a failure of the
// correspondence layer, not a pass.
func coverageFloors(t *testing.T) {
	floors := map[string]int{
		"op_T": 300, "op_A": 300, "op_W": 200, "op_V": 200, "op_U": 200, "op_u": 100, "op_X": 100, "op_Q": 100,
		"op_AM": 20, "op_Tm": 20, "op_AI": 5, "op_Ti": 5,
		"body_N": 100, "body_B": 100, "body_R": 100, "body_O": 100, "body_G": 100,
		"result_ECTX": 100, "result_ENOTREWINDABLE": 20, "result_EGETBODY": 5, "result_EERR": 100, "result_EPRED": 20,
		"result_ETOKEN": 10, "with_cancel": 300, "attempts_2": 300, "attempts_3": 100, "attempts_4": 30,
		"enumerated": 1000, "enumerated_cancel_instants": 500, "enumerated_uploads": 1000, "enumerated_manifest": 20,
		"point_BD": 500, "point_BP": 3000, "point_DP": 1000, "point_seen_W": 2000, "point_seen_FAIL": 100,
		"real_transport": 4, "real_transport_complete_bodies": 2, "token_scenarios": 100, "oracle_only_default_policy": 100,
		"token_attempts_2": 20, "parse_int": 2000, "parse_int_nonzero": 1000, "enumerated_tokens": 300, "op_Y": 50, "op_y": 50, "op_Z": 80, "enumerated_push_tokens": 300, "op_QM": 15, "op_w": 80,
	}
	var low []string
	for k, min := range floors {
		if run.Dist[k] < min {
			low = append(low, fmt.Sprintf("%s=%d<%d", k, run.Dist[k], min))
		}
	}
	if len(low) > 0 {
		sort.Strings(low)
		run.Finish()
		fmt.Fprintln(os.Stderr, "coverage floor not reached:", strings.Join(low, " "))
		os.Exit(4)
	}
}
