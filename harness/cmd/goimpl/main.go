// goimpl: protocol part of C02 / C04.
//
// Per case (random OCI DAG, K permits, initial destination content, fault plan, cancellation point,
// latency mode) two runs are made:
//
//	A. "skeleton": a line-by-line re-implementation of copyGraph.fn (copy.go) and of the outer
//	   closure of ExtendedCopyGraph (extendedcopy.go) whose storage steps are instrumented stubs,
//	   driven by the REAL syncutil.Go / LimitedRegion / status.Tracker (through verifhooks).  It
//	   records the event trace; the extracted Coq LTS (Model/CopyImpl.v) must accept it.
//	B. "real": oras.CopyGraph / oras.ExtendedCopyGraph on the same DAG with instrumented stores.
//	   In fault-free cases its storage-event multiset must equal the skeleton's (ties the skeleton
//	   to copy.go); in every case the independent oracle is evaluated on it.
//
// Oracle (both runs): the call returns within the watchdog; it returns a non-nil error iff a fault
// or the cancellation fired; storage operations in flight never exceed K; goroutines go back to the
// baseline; (real run) no push completes before all successors are present and, on success, the
// closure of the roots is present.
//
// Cases run in a worker sub-process (a double Release panics inside semaphore and cannot be
// recovered in-process); a crash is reported as an oracle failure of the case that was running.
package main

import (
	"bufio"
	"bytes"
	"context"
	_ "crypto/sha256"
	_ "crypto/sha512"
	"encoding/base64"
	"encoding/json"
	"errors"
	"flag"
	"fmt"
	"io"
	"os"
	"os/exec"
	"runtime"
	"sort"
	"strings"
	"sync"
	"time"

	"github.com/opencontainers/go-digest"
	ocispec "github.com/opencontainers/image-spec/specs-go/v1"
	"golang.org/x/sync/semaphore"
	oras "oras.land/oras-go/v2"
	"oras.land/oras-go/v2/verifhooks"
	"verifharness/common"
	"verifharness/dag"
)

const watchdog = 20 * time.Second

type Fault struct {
	Op   string `json:"op"` // exists | fetch | push
	Node int    `json:"node"`
}

type Case struct {
	Nodes   []dag.Encoded `json:"nodes"`
	Roots   []int         `json:"roots"` // items of the top-level syncutil.Go
	Start   int           `json:"start"` // ext: the node given to ExtendedCopyGraph
	Ext     bool          `json:"ext"`
	K       int           `json:"k"`
	Present []int         `json:"present"`
	Faults  []Fault       `json:"faults"`
	Cancel  *Fault        `json:"cancel,omitempty"`
	Lat     int           `json:"lat"`
	Seed    uint64        `json:"seed"`
}

type Result struct {
	Model      string      `json:"model"`
	Impl       string      `json:"impl"`
	Fails      [][2]string `json:"fails"`
	Counts     []string    `json:"counts"`
	Nontrivial bool        `json:"nontrivial"`
	Canon      string      `json:"canon"`
}

var errInjected = errors.New("injected fault")

// ---------------------------------------------------------------- shared instrumentation

type env struct {
	c       *Case
	g       *dag.Graph
	succ    [][]int // successors without foreign layers
	byDig   map[digest.Digest]int
	mu      sync.Mutex
	gauge   map[string]int
	maxG    map[string]int
	fired   bool // a fault or the cancellation fired
	cancel  context.CancelFunc
	cdone   bool
	storage map[string]int // multiset of storage events
	events  []string
	run     string
}

func newEnv(c *Case, g *dag.Graph, run string) *env {
	e := &env{c: c, g: g, byDig: map[digest.Digest]int{}, gauge: map[string]int{}, maxG: map[string]int{},
		storage: map[string]int{}, run: run}
	for _, n := range g.Nodes {
		var s []int
		for _, m := range n.Succ {
			if !g.Nodes[m].Foreign() {
				s = append(s, m)
			}
		}
		e.succ = append(e.succ, s)
		e.byDig[n.Desc.Digest] = n.ID
	}
	return e
}

func (e *env) hasFault(op string, n int) bool {
	for _, f := range e.c.Faults {
		if f.Op == op && f.Node == n {
			return true
		}
	}
	return false
}

func (e *env) latency(op string, n int) {
	h := e.c.Seed*0x9E3779B97F4A7C15 + uint64(n)*0xBF58476D1CE4E5B9 + uint64(len(op))*0x94D049BB133111EB + uint64(op[0])<<32 + uint64(len(e.run))
	h ^= h >> 29
	h *= 0xBF58476D1CE4E5B9
	h ^= h >> 32
	switch e.c.Lat {
	case 1:
		for i := uint64(0); i < h%5; i++ {
			runtime.Gosched()
		}
	case 2:
		time.Sleep(time.Duration(h%300) * time.Microsecond)
	case 3:
		if h%3 == 0 {
			time.Sleep(time.Duration(h%2000) * time.Microsecond)
		} else {
			runtime.Gosched()
		}
	}
}

// begin of a storage operation; must be called with e.mu NOT held
func (e *env) begin(gname, op string, n int) {
	e.mu.Lock()
	e.gauge[gname]++
	if e.gauge[gname] > e.maxG[gname] {
		e.maxG[gname] = e.gauge[gname]
	}
	if e.c.Cancel != nil && !e.cdone && e.c.Cancel.Op == op && e.c.Cancel.Node == n {
		e.cdone = true
		e.fired = true
		e.events = append(e.events, "cancel")
		e.cancel() // recorded before it takes effect
	}
	e.mu.Unlock()
	e.latency(op, n)
}

// ---------------------------------------------------------------- run A: skeleton on the real syncutil

type skel struct {
	*env
	running map[int]int // per frame: fn invocations entered and not yet returned
	early   []string
	limiter *semaphore.Weighted
	tracker *verifhooks.Tracker
	present map[int]bool
	nextTid int
	nextFid int
}

func descOf(g *dag.Graph, n int) ocispec.Descriptor { return g.Nodes[n].Desc }

func (s *skel) logf(format string, a ...any) { s.events = append(s.events, fmt.Sprintf(format, a...)) }

func b2i(b bool) int {
	if b {
		return 1
	}
	return 0
}

// storage stub: returns false when the injected fault fires
func (s *skel) op(op string, faultOps []string, tid, n int, ev string, effect func() string) bool {
	s.begin("skel", op, n)
	s.mu.Lock()
	defer s.mu.Unlock()
	s.gauge["skel"]--
	for _, fo := range faultOps {
		if s.hasFault(fo, n) {
			s.fired = true
			s.logf("%s:%d:%s", ev, tid, "e")
			return false
		}
	}
	s.logf("%s:%d:%s", ev, tid, effect())
	return true
}

func (s *skel) callGo(ctx context.Context, ptid int, outer bool, items []int) error {
	s.mu.Lock()
	fid := s.nextFid
	s.nextFid++
	s.logf("go:%d:%d", ptid, fid)
	s.mu.Unlock()
	err := verifhooks.Go(ctx, s.limiter, func(ctx context.Context, region *verifhooks.LimitedRegion, n int) error {
		if outer {
			return s.outer(ctx, region, n, fid)
		}
		return s.fn(ctx, region, n, fid)
	}, items...)
	s.mu.Lock()
	if s.running[fid] != 0 {
		s.early = append(s.early, fmt.Sprintf("syncutil.Go (frame %d) returned while %d of its tasks were still running", fid, s.running[fid]))
	}
	s.logf("goret:%d:%d", fid, b2i(err != nil))
	s.mu.Unlock()
	return err
}

func (s *skel) taskStart(fid, n int) int {
	s.mu.Lock()
	defer s.mu.Unlock()
	tid := s.nextTid
	s.nextTid++
	s.running[fid]++
	s.logf("start:%d:%d:%d", tid, fid, n)
	return tid
}

// mirrors the closure passed to syncutil.Go in ExtendedCopyGraph
func (s *skel) outer(ctx context.Context, region *verifhooks.LimitedRegion, root int, fid int) (err error) {
	tid := s.taskStart(fid, root)
	defer func() {
		s.mu.Lock()
		s.running[fid]--
		s.logf("ret:%d:%d", tid, b2i(err != nil))
		s.mu.Unlock()
	}()
	s.mu.Lock()
	s.logf("end:%d", tid)
	region.End()
	s.mu.Unlock()
	if err := s.callGo(ctx, tid, false, []int{root}); err != nil {
		return err
	}
	return s.start(region, tid)
}

func (s *skel) start(region *verifhooks.LimitedRegion, tid int) error {
	if err := region.Start(); err != nil {
		s.mu.Lock()
		s.logf("startfail:%d", tid)
		s.mu.Unlock()
		return err
	}
	s.mu.Lock()
	s.logf("startok:%d", tid)
	s.mu.Unlock()
	return nil
}

// mirrors copyGraph.fn of copy.go, statement by statement
func (s *skel) fn(ctx context.Context, region *verifhooks.LimitedRegion, n int, fid int) (err error) {
	tid := s.taskStart(fid, n)
	var done chan struct{}
	committed := false
	defer func() {
		s.mu.Lock()
		s.running[fid]--
		s.logf("ret:%d:%d", tid, b2i(err != nil))
		if committed && err == nil {
			close(done) // mark the content as done on success
		}
		s.mu.Unlock()
	}()
	// skip the descriptor if other go routine is working on it
	s.mu.Lock()
	done, committed = s.tracker.TryCommit(descOf(s.g, n))
	s.logf("try:%d:%d", tid, b2i(committed))
	s.mu.Unlock()
	if !committed {
		return nil
	}
	// skip if a rooted sub-DAG exists
	exists := false
	if !s.op("exists", []string{"exists"}, tid, n, "ex", func() string {
		exists = s.present[n]
		s.storage[fmt.Sprintf("E:%d", n)]++
		if exists {
			return "t"
		}
		return "f"
	}) {
		return errInjected
	}
	if exists {
		return nil
	}
	// find successors while non-leaf nodes will be fetched and cached
	isMan := s.g.Nodes[n].IsManifest()
	var ffind, fpush []string
	if isMan {
		ffind = []string{"fetch"}
		fpush = []string{"push"}
	} else {
		fpush = []string{"fetch", "push"}
	}
	if !s.op("fetch", ffind, tid, n, "find", func() string {
		if isMan {
			s.storage[fmt.Sprintf("F:%d", n)]++
		}
		return "1"
	}) {
		return errInjected
	}
	successors := s.succ[n]
	if len(successors) != 0 {
		// for non-leaf nodes, process successors and wait for them to complete
		s.mu.Lock()
		s.logf("end:%d", tid)
		region.End()
		s.mu.Unlock()
		if err := s.callGo(ctx, tid, false, successors); err != nil {
			return err
		}
		for _, node := range successors {
			s.mu.Lock()
			sdone, scommitted := s.tracker.TryCommit(descOf(s.g, node))
			if scommitted {
				s.logf("wait:%d:%d:uncommitted", tid, node)
				s.mu.Unlock()
				return fmt.Errorf("%d: %d: successor not committed", n, node)
			}
			s.mu.Unlock()
			select {
			case <-sdone:
				s.mu.Lock()
				s.logf("wait:%d:%d:ok", tid, node)
				s.mu.Unlock()
			case <-ctx.Done():
				s.mu.Lock()
				s.logf("wait:%d:%d:cancel", tid, node)
				s.mu.Unlock()
				return ctx.Err()
			}
		}
		if err := s.start(region, tid); err != nil {
			return err
		}
	}
	if !s.op("push", fpush, tid, n, "push", func() string {
		if !isMan {
			s.storage[fmt.Sprintf("F:%d", n)]++
		}
		s.storage[fmt.Sprintf("P:%d", n)]++
		s.present[n] = true
		return "1"
	}) {
		return errInjected
	}
	return nil
}

type outcome struct {
	hung    bool
	err     error
	leaked  int
	elapsed time.Duration
}

func guarded(parent context.Context, cancel context.CancelFunc, f func() error) outcome {
	runtime.GC()
	base := runtime.NumGoroutine()
	ch := make(chan error, 1)
	t0 := time.Now()
	go func() { ch <- f() }()
	var o outcome
	select {
	case o.err = <-ch:
	case <-time.After(watchdog):
		o.hung = true
		cancel()
		select {
		case <-ch:
		case <-time.After(2 * time.Second):
		}
	}
	o.elapsed = time.Since(t0)
	if !o.hung {
		for i := 0; i < 400; i++ {
			if runtime.NumGoroutine() <= base {
				break
			}
			time.Sleep(5 * time.Millisecond)
		}
		if n := runtime.NumGoroutine(); n > base {
			o.leaked = n - base
		}
	}
	return o
}

func csv(xs []int) string {
	if len(xs) == 0 {
		return "-"
	}
	var p []string
	for _, x := range xs {
		p = append(p, fmt.Sprint(x))
	}
	return strings.Join(p, ",")
}

func runSkeleton(c *Case, g *dag.Graph, res *Result) (*skel, outcome) {
	ctx, cancel := context.WithCancel(context.Background())
	defer cancel()
	s := &skel{env: newEnv(c, g, "skel"), limiter: semaphore.NewWeighted(int64(c.K)), tracker: verifhooks.NewTracker(),
		present: map[int]bool{}, running: map[int]int{}}
	s.cancel = cancel
	for _, p := range c.Present {
		s.present[p] = true
	}
	o := guarded(ctx, cancel, func() error { return s.callGo(ctx, -1, c.Ext, c.Roots) })
	return s, o
}

// ---------------------------------------------------------------- run B: the real copyGraph

type istore struct {
	e    *env
	name string
	mu   sync.Mutex
	data map[digest.Digest][]byte
	viol []string
}

func (st *istore) node(d ocispec.Descriptor) int {
	n, ok := st.e.byDig[d.Digest]
	if !ok {
		return -1
	}
	return n
}

func (st *istore) end() {
	st.e.mu.Lock()
	st.e.gauge[st.name]--
	st.e.mu.Unlock()
}

func (st *istore) fault(op string, n int) bool {
	st.e.mu.Lock()
	defer st.e.mu.Unlock()
	if st.e.hasFault(op, n) {
		st.e.fired = true
		return true
	}
	return false
}

func (st *istore) count(k string, n int) {
	st.e.mu.Lock()
	st.e.storage[fmt.Sprintf("%s:%d", k, n)]++
	st.e.mu.Unlock()
}

func (st *istore) Exists(ctx context.Context, d ocispec.Descriptor) (bool, error) {
	n := st.node(d)
	st.e.begin(st.name, "exists", n)
	defer st.end()
	if st.name == "dst" {
		if st.fault("exists", n) {
			return false, errInjected
		}
		st.count("E", n)
	}
	st.mu.Lock()
	defer st.mu.Unlock()
	_, ok := st.data[d.Digest]
	return ok, nil
}

type gaugedReader struct {
	io.Reader
	once sync.Once
	st   *istore
}

func (r *gaugedReader) Close() error {
	r.once.Do(r.st.end)
	return nil
}

func (st *istore) Fetch(ctx context.Context, d ocispec.Descriptor) (io.ReadCloser, error) {
	n := st.node(d)
	st.e.begin(st.name, "fetch", n)
	if st.name == "src" && st.fault("fetch", n) {
		st.end()
		return nil, errInjected
	}
	st.mu.Lock()
	b, ok := st.data[d.Digest]
	st.mu.Unlock()
	if !ok {
		st.end()
		return nil, fmt.Errorf("%s: not found", d.Digest)
	}
	if st.name == "src" {
		st.count("F", n)
	}
	return &gaugedReader{Reader: bytes.NewReader(b), st: st}, nil // in flight until Close
}

func (st *istore) Push(ctx context.Context, d ocispec.Descriptor, r io.Reader) error {
	n := st.node(d)
	st.e.begin(st.name, "push", n)
	defer st.end()
	if st.fault("push", n) {
		return errInjected
	}
	b, err := io.ReadAll(r)
	if err != nil {
		return err
	}
	if digest.FromBytes(b) != d.Digest || int64(len(b)) != d.Size {
		return fmt.Errorf("content mismatch")
	}
	st.mu.Lock()
	defer st.mu.Unlock()
	if n >= 0 {
		for _, m := range st.e.succ[n] {
			if _, ok := st.data[st.e.g.Nodes[m].Desc.Digest]; !ok {
				st.viol = append(st.viol, fmt.Sprintf("push of node %d completes while successor %d is absent", n, m))
			}
		}
	}
	st.data[d.Digest] = b
	st.count("P", n)
	return nil
}

func (st *istore) Predecessors(ctx context.Context, d ocispec.Descriptor) ([]ocispec.Descriptor, error) {
	n := st.node(d)
	var out []ocispec.Descriptor
	if n >= 0 {
		for _, p := range st.e.g.Preds(n) {
			out = append(out, st.e.g.Nodes[p].Desc)
		}
	}
	return out, nil
}

func runReal(c *Case, g *dag.Graph) (*env, *istore, outcome) {
	ctx, cancel := context.WithCancel(context.Background())
	defer cancel()
	e := newEnv(c, g, "real")
	e.cancel = cancel
	src := &istore{e: e, name: "src", data: map[digest.Digest][]byte{}}
	dst := &istore{e: e, name: "dst", data: map[digest.Digest][]byte{}}
	for _, n := range g.Nodes {
		if !n.Foreign() {
			src.data[n.Desc.Digest] = n.Bytes
		}
	}
	for _, p := range c.Present {
		dst.data[g.Nodes[p].Desc.Digest] = g.Nodes[p].Bytes
	}
	o := guarded(ctx, cancel, func() error {
		if c.Ext {
			var opts oras.ExtendedCopyGraphOptions
			opts.Concurrency = c.K
			return oras.ExtendedCopyGraph(ctx, src, dst, g.Nodes[c.Start].Desc, opts)
		}
		var opts oras.CopyGraphOptions
		opts.Concurrency = c.K
		return oras.CopyGraph(ctx, src, dst, g.Nodes[c.Roots[0]].Desc, opts)
	})
	return e, dst, o
}

// ---------------------------------------------------------------- one case

func msKeys(m map[string]int) string {
	var ks []string
	for k, v := range m {
		ks = append(ks, fmt.Sprintf("%s*%d", k, v))
	}
	sort.Strings(ks)
	return strings.Join(ks, " ")
}

func runCase(c *Case) *Result {
	res := &Result{}
	fail := func(sig, msg string) { res.Fails = append(res.Fails, [2]string{sig, msg}) }
	g := dag.Decode(c.Nodes)

	// ----- A
	s, oa := runSkeleton(c, g, res)
	s.mu.Lock()
	events := append([]string(nil), s.events...)
	firedA := s.fired
	maxA := s.maxG["skel"]
	earlyA := append([]string(nil), s.early...)
	storA := msKeys(s.storage)
	s.mu.Unlock()
	var doneNodes []int
	if !oa.hung {
		for _, n := range g.Nodes {
			if n.Foreign() {
				continue
			}
			ch, committed := s.tracker.TryCommit(n.Desc)
			if !committed {
				select {
				case <-ch:
					doneNodes = append(doneNodes, n.ID)
				default:
				}
			}
		}
	}
	switch {
	case oa.hung:
		fail("hang-skel", fmt.Sprintf("skeleton on the real syncutil.Go did not return within %v (K=%d)", watchdog, c.K))
	default:
		if firedA && oa.err == nil {
			fail("fault-swallowed-skel", "a fault/cancellation fired but syncutil.Go returned nil")
		}
		if !firedA && oa.err != nil {
			fail("spurious-error-skel", "no fault fired but syncutil.Go returned "+oa.err.Error())
		}
		if oa.leaked > 0 {
			fail("goroutine-leak-skel", fmt.Sprintf("%d goroutines above the baseline after return", oa.leaked))
		}
	}
	if len(earlyA) > 0 {
		fail("go-returned-early", earlyA[0])
	}
	if maxA > c.K {
		fail("inflight-skel", fmt.Sprintf("%d storage steps in flight with K=%d", maxA, c.K))
	}
	// model input
	var b strings.Builder
	js, _ := json.Marshal(c)
	fmt.Fprintf(&b, "J%s G %d %d %d", base64.RawURLEncoding.EncodeToString(js), c.K, b2i(c.Ext), len(g.Nodes))
	for i := range g.Nodes {
		b.WriteString(" " + csv(s.succ[i]))
	}
	// the destination: initial content (P) for the model with a destination (Model/CopyImplDst.v)
	p0 := append([]int(nil), c.Present...)
	sort.Ints(p0)
	b.WriteString(" R " + csv(c.Roots) + " P " + csv(p0) + " E")
	for _, ev := range events {
		b.WriteString(" " + ev)
	}
	res.Model = b.String()
	if oa.hung {
		res.Impl = "HUNG"
	} else {
		var pres []int
		s.mu.Lock()
		for n, ok := range s.present {
			if ok {
				pres = append(pres, n)
			}
		}
		s.mu.Unlock()
		sort.Ints(pres)
		// closed: the destination was link-closed all along -- the theorem (C02_closed_always_protocol) says it is
		// when it started link-closed; the generator also produces initial contents that are not
		closed0 := 1
		in0 := map[int]bool{}
		for _, p := range p0 {
			in0[p] = true
		}
		for _, p := range p0 {
			for _, m := range s.succ[p] {
				if !in0[m] {
					closed0 = 0
				}
			}
		}
		res.Impl = fmt.Sprintf("ACCEPT ret=%d done=%s dst=%s closed=%d", b2i(oa.err != nil), csv(doneNodes), csv(pres), closed0)
	}

	// ----- B
	e, dst, ob := runReal(c, g)
	e.mu.Lock()
	firedB := e.fired
	storB := msKeys(e.storage)
	maxSrc, maxDst := e.maxG["src"], e.maxG["dst"]
	e.mu.Unlock()
	dst.mu.Lock()
	viol := append([]string(nil), dst.viol...)
	dst.mu.Unlock()
	switch {
	case ob.hung:
		fail("hang-real", fmt.Sprintf("the real copy did not return within %v (K=%d)", watchdog, c.K))
	default:
		if firedB && ob.err == nil {
			fail("fault-swallowed-real", "a fault/cancellation fired but the copy returned nil")
		}
		if !firedB && ob.err != nil {
			fail("spurious-error-real", "no fault fired but the copy returned "+ob.err.Error())
		}
		if ob.leaked > 0 {
			fail("goroutine-leak-real", fmt.Sprintf("%d goroutines above the baseline after return", ob.leaked))
		}
		if ob.err == nil {
			dst.mu.Lock()
			var need []int
			for _, r := range c.Roots {
				need = append(need, r)
			}
			seen := map[int]bool{}
			present0 := map[int]bool{}
			for _, p := range c.Present {
				present0[p] = true
			}
			for len(need) > 0 {
				n := need[len(need)-1]
				need = need[:len(need)-1]
				if seen[n] {
					continue
				}
				seen[n] = true
				if _, ok := dst.data[g.Nodes[n].Desc.Digest]; !ok {
					fail("incomplete-real", fmt.Sprintf("copy returned nil but node %d is absent", n))
					break
				}
				if !present0[n] { // an initially present node stands for its sub-DAG
					need = append(need, e.succ[n]...)
				}
			}
			dst.mu.Unlock()
		}
	}
	if maxSrc > c.K || maxDst > c.K {
		fail("inflight-real", fmt.Sprintf("src %d / dst %d operations in flight with K=%d", maxSrc, maxDst, c.K))
	}
	if len(viol) > 0 {
		fail("push-before-successors", viol[0])
	}
	if !firedA && !firedB && !oa.hung && !ob.hung && oa.err == nil && ob.err == nil && storA != storB {
		fail("skeleton-diverges", "storage events differ: skeleton ["+storA+"] real ["+storB+"]")
	}

	// statistics
	res.Counts = append(res.Counts, fmt.Sprintf("K=%d", c.K), fmt.Sprintf("faults=%d", len(c.Faults)),
		fmt.Sprintf("cancel=%v", c.Cancel != nil), fmt.Sprintf("ext=%v", c.Ext), fmt.Sprintf("lat=%d", c.Lat),
		fmt.Sprintf("nodes<=%d", (len(g.Nodes)+3)/4*4), fmt.Sprintf("outcome=%s", map[bool]string{true: "error", false: "ok"}[oa.err != nil]))
	if firedA {
		res.Counts = append(res.Counts, "fault-fired")
	}
	res.Nontrivial = len(events) > 6
	res.Canon = res.Model[strings.Index(res.Model, " G ")+1:]
	return res
}

// ---------------------------------------------------------------- generator

func genCase(r *common.Rand, thorough bool) *Case {
	o := dag.DefaultOptions()
	o.Twins = false
	o.MinNodes = 2
	o.MaxNodes = 10
	if r.Chance(1, 4) {
		o.MaxNodes = 18
	}
	if thorough && r.Chance(1, 6) {
		o.MaxNodes = 30
	}
	g := dag.Random(r, o)
	c := &Case{Nodes: g.Encode(), Seed: r.U64(), Lat: r.Intn(4)}
	c.K = 1 + r.Intn(3)
	if r.Chance(1, 6) {
		c.K = 4 + r.Intn(5)
	}
	var cand, man []int
	for {
		ok := false
		for _, n := range g.Nodes {
			if !n.Foreign() {
				ok = true
			}
		}
		if ok {
			break
		}
		g = dag.Random(r, o)
		c.Nodes = g.Encode()
	}
	for _, n := range g.Nodes {
		if !n.Foreign() {
			cand = append(cand, n.ID)
			if n.IsManifest() {
				man = append(man, n.ID)
			}
		}
	}
	pick := func() int {
		if len(man) > 0 && r.Chance(5, 6) {
			// prefer late (large) manifests
			a, b := common.Pick(r, man), common.Pick(r, man)
			if a > b {
				return a
			}
			return b
		}
		return common.Pick(r, cand)
	}
	root := pick()
	c.Start = root
	c.Roots = []int{root}
	if r.Chance(1, 4) {
		c.Ext = true
		// ground truth of findRoots without depth/filters: ancestors-or-self without predecessors
		anc := map[int]bool{root: true}
		for changed := true; changed; {
			changed = false
			for _, n := range g.Nodes {
				if anc[n.ID] {
					continue
				}
				for _, m := range n.Succ {
					if anc[m] {
						anc[n.ID] = true
						changed = true
					}
				}
			}
		}
		c.Roots = nil
		for id := range g.Nodes {
			if anc[id] && len(g.Preds(id)) == 0 {
				c.Roots = append(c.Roots, id)
			}
		}
		common.Shuffle(r, c.Roots)
	}
	reach := map[int]bool{}
	for _, rt := range c.Roots {
		for k := range g.Reach(rt) {
			if !g.Nodes[k].Foreign() {
				reach[k] = true
			}
		}
	}
	var rl []int
	for k := range reach {
		rl = append(rl, k)
	}
	sort.Ints(rl)
	switch r.Intn(4) {
	case 0:
		for _, k := range rl {
			if r.Chance(1, 5) {
				c.Present = append(c.Present, k)
			}
		}
	case 1:
		sub := g.RandomClosedSubset(r, 3)
		for k := range sub {
			if !g.Nodes[k].Foreign() {
				c.Present = append(c.Present, k)
			}
		}
		sort.Ints(c.Present)
	}
	nf := 0
	switch r.Intn(10) {
	case 0, 1, 2:
		nf = 1
	case 3, 4:
		nf = 2
	case 5:
		nf = 3
	}
	for i := 0; i < nf && len(rl) > 0; i++ {
		c.Faults = append(c.Faults, Fault{Op: common.Pick(r, []string{"exists", "fetch", "push"}), Node: common.Pick(r, rl)})
	}
	if r.Chance(1, 5) && len(rl) > 0 {
		c.Cancel = &Fault{Op: common.Pick(r, []string{"exists", "fetch", "push"}), Node: common.Pick(r, rl)}
	}
	return c
}

// ---------------------------------------------------------------- supervisor / worker

func worker() {
	in := bufio.NewReaderSize(os.Stdin, 1<<20)
	out := bufio.NewWriter(os.Stdout)
	for {
		line, err := in.ReadBytes('\n')
		if len(bytes.TrimSpace(line)) > 0 {
			var c Case
			if e := json.Unmarshal(line, &c); e != nil {
				panic(e)
			}
			res := runCase(&c)
			js, _ := json.Marshal(res)
			out.Write(js)
			out.WriteByte('\n')
			out.Flush()
		}
		if err != nil {
			return
		}
	}
}

type workerProc struct {
	cmd    *exec.Cmd
	stdin  io.WriteCloser
	stdout *bufio.Reader
	stderr *bytes.Buffer
}

func startWorker() *workerProc {
	cmd := exec.Command(os.Args[0], "-worker", "-dir", ".")
	w := &workerProc{cmd: cmd, stderr: &bytes.Buffer{}}
	var err error
	if w.stdin, err = cmd.StdinPipe(); err != nil {
		panic(err)
	}
	so, err := cmd.StdoutPipe()
	if err != nil {
		panic(err)
	}
	cmd.Stderr = w.stderr
	w.stdout = bufio.NewReaderSize(so, 1<<20)
	if err := cmd.Start(); err != nil {
		panic(err)
	}
	return w
}

func main() {
	for _, a := range os.Args[1:] {
		if a == "-worker" {
			worker()
			return
		}
	}
	flag.Bool("worker", false, "internal")
	run := common.Start("C02")
	var cases []*Case
	if run.Replay != "" {
		for _, m := range common.ReadReplay(run.Replay) {
			var c Case
			if err := json.Unmarshal([]byte(m["case"]), &c); err == nil && len(c.Nodes) > 0 {
				// repeat: schedules differ from run to run
				for i := 0; i < 8; i++ {
					cc := c
					cc.Seed = c.Seed + uint64(i)
					cc.Lat = (c.Lat + i) % 4
					cases = append(cases, &cc)
				}
			}
		}
	} else {
		n := run.Scale(750, 28000)
		for i := 0; i < n; i++ {
			cases = append(cases, genCase(run.Rand, run.Thorough()))
		}
	}
	var w *workerProc
	failedCases, hangs := 0, 0
	for _, c := range cases {
		if failedCases >= 6 || hangs >= 2 {
			run.Count("stopped-early-after-6-failing-cases")
			break
		}
		id := run.NewID()
		if w == nil {
			w = startWorker()
		}
		js, _ := json.Marshal(c)
		replay := map[string]string{"case": string(js)}
		w.stdin.Write(append(js, '\n'))
		line, err := w.stdout.ReadBytes('\n')
		var res Result
		if err != nil || json.Unmarshal(line, &res) != nil {
			w.stdin.Close()
			w.cmd.Wait()
			msg := w.stderr.String()
			if len(msg) > 600 {
				msg = msg[:600]
			}
			sig := "crash"
			if strings.Contains(msg, "semaphore: released more than held") {
				sig = "double-release"
			}
			run.Case(id, "CRASH", "CRASH")
			run.OracleFail(id, sig, "the worker process died while running this case: "+strings.ReplaceAll(msg, "\n", " | "), replay)
			w = nil
			failedCases++
			continue
		}
		run.Case(id, res.Model, res.Impl)
		run.TracesAgainstImpl++
		for _, f := range res.Fails {
			run.OracleFail(id, f[0], f[1], replay)
			if strings.HasPrefix(f[0], "hang") {
				hangs++
			}
		}
		if len(res.Fails) > 0 {
			failedCases++
		}
		for _, k := range res.Counts {
			run.Count(k)
		}
		if res.Nontrivial {
			run.Nontrivial(res.Canon)
		}
		if len(c.Faults) > 0 && c.K == 1 {
			run.Sample(map[string]any{"K": c.K, "ext": c.Ext, "roots": c.Roots, "faults": c.Faults, "cancel": c.Cancel, "impl": res.Impl})
		}
	}
	if w != nil {
		w.stdin.Close()
		w.cmd.Wait()
	}
	run.Rule = "random OCI DAGs (harness/dag) x K x initial destination content x fault plan (exists|fetch|push, node) x cancellation point x latency mode; per case: skeleton of copyGraph.fn on the real syncutil.Go/LimitedRegion/Tracker (trace must be a run of the Coq LTS) and the real CopyGraph/ExtendedCopyGraph with instrumented stores; distinct = distinct (graph, K, roots, event trace); non-trivial = more than 6 protocol events"
	run.Finish()
}
