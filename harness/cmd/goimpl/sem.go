// sem.go: the REAL golang.org/x/sync/semaphore.Weighted (the limiter of syncutil.LimitedRegion) driven
// with scripted Acquire / Release / cancel sequences (unit weights) against the Coq model
// Model/CopyImplSem.v.  The script is chosen by a PRNG among the operations that are legal in a
// shadow state kept here (counter + FIFO queue: the oracle's ground truth); every expectation of the
// shadow is checked on the real semaphore with a generous time-out (no wake-up may be lost, nothing
// may be admitted beyond the size), and the recorded operations + results are replayed by the
// extracted model (correspondence).
package main

import (
	"context"
	"fmt"
	"runtime"
	"strings"
	"time"

	"golang.org/x/sync/semaphore"
	"verifharness/common"
)

type SemCase struct {
	Size int    `json:"size"`
	Ops  int    `json:"ops"`
	Seed uint64 `json:"seed"`
}

const semWait = 8 * time.Second

func runSem(sc *SemCase) *Result {
	res := &Result{}
	fail := func(sig, msg string) { res.Fails = append(res.Fails, [2]string{sig, msg}) }
	r := common.NewRand(sc.Seed)
	sem := semaphore.NewWeighted(int64(sc.Size))
	type waiter struct {
		ch     chan error
		cancel context.CancelFunc
	}
	ws := map[int]*waiter{}
	var queue []int // shadow FIFO
	held := 0       // shadow: Acquire calls that returned nil, not yet released
	next := 0
	var ops []string
	// non-blocking check: nobody but `except` has returned
	unexpected := func(except int) {
		for _, w := range queue {
			if w == except {
				continue
			}
			select {
			case err := <-ws[w].ch:
				fail("sem-unexpected-return", fmt.Sprintf("queued waiter %d returned (err=%v) while %d of %d permits are held", w, err, held, sc.Size))
				ws[w].ch <- err
			default:
			}
		}
	}
	expect := func(w int, wantErr bool, what string) bool {
		select {
		case err := <-ws[w].ch:
			if (err != nil) != wantErr {
				fail("sem-wrong-result", fmt.Sprintf("%s: waiter %d returned err=%v", what, w, err))
				return false
			}
			return true
		case <-time.After(semWait):
			fail("sem-lost-wakeup", fmt.Sprintf("%s: waiter %d did not return within %v (held %d of %d)", what, w, semWait, held, sc.Size))
			return false
		}
	}
	ok := true
	for i := 0; i < sc.Ops && ok; i++ {
		var legal []string
		legal = append(legal, "acq", "acq")
		if held > 0 {
			legal = append(legal, "rel", "rel")
		}
		if len(queue) > 0 {
			legal = append(legal, "cancel")
		}
		legal = append(legal, "acqdead")
		switch common.Pick(r, legal) {
		case "acq":
			w := next
			next++
			ctx, cancel := context.WithCancel(context.Background())
			ws[w] = &waiter{ch: make(chan error, 2), cancel: cancel}
			go func(wt *waiter) { wt.ch <- sem.Acquire(ctx, 1) }(ws[w])
			if held < sc.Size && len(queue) == 0 {
				ok = expect(w, false, "Acquire with a free permit")
				held++
				ops = append(ops, fmt.Sprintf("a:%d:0:g", w))
			} else {
				// give the goroutine time to enqueue itself before the next operation
				for k := 0; k < 20; k++ {
					runtime.Gosched()
				}
				time.Sleep(3 * time.Millisecond)
				select {
				case err := <-ws[w].ch:
					fail("sem-over-admission", fmt.Sprintf("Acquire returned (err=%v) although all %d permits are held and %d waiters are queued", err, sc.Size, len(queue)))
					ok = false
				default:
				}
				queue = append(queue, w)
				ops = append(ops, fmt.Sprintf("a:%d:0:b", w))
			}
		case "acqdead":
			w := next
			next++
			ctx, cancel := context.WithCancel(context.Background())
			cancel()
			ws[w] = &waiter{ch: make(chan error, 2), cancel: cancel}
			go func(wt *waiter) { wt.ch <- sem.Acquire(ctx, 1) }(ws[w])
			ok = expect(w, true, "Acquire with a done context")
			ops = append(ops, fmt.Sprintf("a:%d:1:f", w))
		case "rel":
			sem.Release(1)
			held--
			if len(queue) > 0 {
				// exactly one queued waiter must be woken.  It is the first of the real FIFO; the shadow
				// queue is in the order in which the harness ISSUED the blocking calls, which can differ
				// when two of its goroutines enqueued themselves in the other order: any queued waiter
				// is accepted here, the model runner then reports the script as UNJUDGED (enqueue-order)
				woken, at := -1, -1
				deadline := time.Now().Add(semWait)
				for woken < 0 && time.Now().Before(deadline) {
					for k, w := range queue {
						select {
						case err := <-ws[w].ch:
							if err != nil {
								fail("sem-wrong-result", fmt.Sprintf("Release with queued waiters: waiter %d returned err=%v", w, err))
								ok = false
							}
							woken, at = w, k
						default:
						}
						if woken >= 0 {
							break
						}
					}
					if woken < 0 {
						time.Sleep(100 * time.Microsecond)
					}
				}
				if woken < 0 {
					fail("sem-lost-wakeup", fmt.Sprintf("Release with %d queued waiters: none returned within %v (held %d of %d)", len(queue), semWait, held, sc.Size))
					ok = false
				} else {
					if at != 0 {
						res.Counts = append(res.Counts, "sem-enqueue-order-race")
					}
					queue = append(append([]int(nil), queue[:at]...), queue[at+1:]...)
					held++
					ops = append(ops, fmt.Sprintf("r:%d", woken))
				}
			} else {
				ops = append(ops, "r:-")
			}
		case "cancel":
			k := r.Intn(len(queue))
			w := queue[k]
			ws[w].cancel()
			queue = append(append([]int(nil), queue[:k]...), queue[k+1:]...)
			ok = expect(w, true, "cancel of a queued waiter")
			ops = append(ops, fmt.Sprintf("c:%d", w))
		}
		if ok {
			unexpected(-1)
			ok = len(res.Fails) == 0
		}
	}
	// clean up
	for _, w := range queue {
		ws[w].cancel()
	}
	for i := 0; i < held; i++ {
		sem.Release(1)
	}
	res.Model = fmt.Sprintf("SEM %d %s", sc.Size, strings.Join(ops, " "))
	res.Impl = fmt.Sprintf("SEM held=%d wait=%s", held, csv(queue))
	if !ok {
		res.Impl = "SEM-FAILED"
	}
	res.Counts = append(res.Counts, "sem-script", fmt.Sprintf("sem-size=%d", sc.Size))
	res.Nontrivial = len(ops) > 4
	res.Canon = res.Model
	return res
}
