// C20, link part: the same generator, recognisers and model as cmd/c20, in a binary that links
// ONLY crypto/sha256 (through harness/common; registry itself links no hash).  go-digest accepts a
// digest only when its algorithm's hash implementation is linked (crypto.Hash.Available), so in
// this build sha384/sha512 digests are not digests: ParseReference rejects them and
// Reference.String() prints them behind ':' instead of '@'.  The model takes the link set as the
// parameter [avail] (set by the "A" lines); the theorems hold for every [avail].
//
// This package must not import registry/remote, net/http, crypto/tls or crypto/sha512: the
// start-up check (availabilityCases) fails the run if the link set is not {sha256}.
package main

import (
	"fmt"
	"os"
	"sort"
	"strings"

	"oras.land/oras-go/v2/registry"
	"verifharness/common"
)

func main() {
	run = common.Start("C20link")
	defer run.Finish()
	run.Rule = "references, digests and Reference.String() triples with sha256 / sha384 / sha512 / unregistered digests in a binary that links crypto/sha256 only; distinct = distinct input; non-trivial = accepted by the implementation"
	linked = map[string]bool{"sha256": true, "sha384": false, "sha512": false}
	if run.Replay != "" {
		availabilityCases()
		for _, c := range common.ReadReplay(run.Replay) {
			switch c["op"] {
			case "P":
				parseCase(c["input"])
			case "V":
				componentCase(c["kind"], c["input"])
			case "F":
				formatCase(registry.Reference{Registry: c["registry"], Repository: c["repository"], Reference: c["reference"]})
			}
		}
		return
	}
	availabilityCases()
	r := run.Rand
	for _, d := range digestPool {
		componentCase("digest", d)
		for _, pre := range []string{"r/a@", "r/a:t@", "r:5/a/b@", "r/a:"} {
			parseCase(pre + d)
		}
		formatCase(registry.Reference{Registry: "r", Repository: "a", Reference: d})
	}
	for i := 0; i < run.Scale(20000, 300000); i++ {
		d := randDigest(r)
		if r.Chance(1, 5) {
			d = mutate(r, d)
		}
		componentCase("digest", d)
		if okDigest(d) {
			run.Count("link_digest_ok_" + d[:6])
		} else if strings.HasPrefix(d, "sha384:") || strings.HasPrefix(d, "sha512:") {
			run.Count("link_digest_unlinked")
		}
	}
	for i := 0; i < run.Scale(20000, 300000); i++ {
		s := randomValid(r)
		k := r.Intn(3)
		for j := 0; j < k; j++ {
			s = mutate(r, s)
		}
		parseCase(s)
	}
	for i := 0; i < run.Scale(20000, 300000); i++ {
		constructedCase(r)
	}
	for i := 0; i < run.Scale(5000, 100000); i++ {
		formatCase(registry.Reference{Registry: common.Pick(r, []string{"localhost:5000", "docker.io", ""}),
			Repository: common.Pick(r, []string{"a/b", "x", ""}),
			Reference:  common.Pick(r, []string{"", "v1", randDigest(r), randJunk(r), common.Pick(r, digestPool)})})
	}
	floors := map[string]int{"parse_ok": 1000, "parse_judged_accept": 500, "component_digest_ok": 1000, "link_digest_unlinked": 3000,
		"link_digest_ok_sha256": 1000, "format": 1000, "linked_sha256_true": 1, "linked_sha384_false": 1, "linked_sha512_false": 1}
	var low []string
	for k, n := range floors {
		if run.Dist[k] < n {
			low = append(low, fmt.Sprintf("%s=%d<%d", k, run.Dist[k], n))
		}
	}
	if len(low) > 0 {
		sort.Strings(low)
		fmt.Fprintln(os.Stderr, "coverage floor not reached:", strings.Join(low, " "))
		run.Finish()
		os.Exit(3)
	}
}
