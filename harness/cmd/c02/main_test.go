package main

import (
	"os"
	"testing"

	"verifharness/common"
	"verifharness/copyh"
)

// The harness is a test binary because the controlled schedules use
// testing/synctest, which needs a *testing.T.  bin/check runs
//   <binary> -test.run ^TestVerif$ -test.timeout 0 -seed N -tier T -dir D [-replay F]
// The parent process re-runs itself as a child (see copyh.FParent).

var run *common.Run

func TestMain(m *testing.M) {
	if os.Getenv("COPYH_CHILD") == "" {
		os.Exit(copyh.FParent())
	}
	run = common.Start("C02")
	os.Exit(m.Run())
}

func TestVerif(t *testing.T) {
	copyh.T = t
	copyh.FRunAll(run, quick, thorough)
}
