// C02 harness (spec-level part): the destination stays link-closed at every instant,
// failures surface, a retry completes the graph.  Fault-injecting wrappers, the
// destination monitor, generators and the oracle live in verifharness/copyh (fault.go).
package main

import (
	_ "crypto/sha256"
	_ "crypto/sha512"
	"os"

	"verifharness/common"
	"verifharness/copyh"
)

var (
	quick    = copyh.FBudget{Rand: 700, Shared: 500, Sched: 250, SchedShared: 350, Reps: 0}
	thorough = copyh.FBudget{Rand: 5000, Shared: 4000, Sched: 1500, SchedShared: 2500, Reps: 2, Exh: 40, ExhReps: 4}
)

// main: the plain binary (no controlled schedules; bin/check builds the test binary).
func main() {
	if os.Getenv("COPYH_CHILD") == "" {
		os.Exit(copyh.FParent())
	}
	run := common.Start("C02")
	copyh.FRunAll(run, quick, thorough)
}
