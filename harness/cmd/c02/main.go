// C02 harness (spec-level part): the destination stays link-closed at every instant,
// failures surface, a retry completes the graph.  Fault-injecting wrappers, the
// destination monitor, generators and the oracle live in verifharness/copyh (fault.go).
package main

import (
	_ "crypto/sha256"
	_ "crypto/sha512"
	"os"

	"verifharness/common"
	"verifharness/copyh"
)

var (
	quick    = copyh.FBudget{Rand: 520, Shared: 340, Sched: 200, SchedShared: 260, Shared2: 200, SchedShared2: 230, Reps: 0}
	thorough = copyh.FBudget{Rand: 2200, Shared: 1800, Sched: 800, SchedShared: 1100, Shared2: 900, SchedShared2: 1100, Reps: 1, Exh: 20, ExhReps: 4, Exh2: 5}
)

// main: the plain binary (no controlled schedules; bin/check builds the test binary).
func main() {
	if os.Getenv("COPYH_CHILD") == "" {
		os.Exit(copyh.FParent())
	}
	run := common.Start("C02")
	copyh.FRunAll(run, quick, thorough)
}
