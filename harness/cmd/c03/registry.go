package main

// A read-only in-memory OCI registry serving one repository "repo": manifests,
// blobs, tags, and referrers either through the Referrers API (optionally
// paginated with Link headers) or through the referrers tag schema
// (sha256-<hex> index manifests).  The referrer descriptors it serves are the
// generator's own: artifactType = the manifest's effective type, annotations =
// the manifest's annotations (what the distribution spec requires).

import (
	"encoding/json"
	"fmt"
	"net/http"
	"net/http/httptest"
	"net/url"
	"strconv"
	"strings"
	"sync"

	"github.com/opencontainers/go-digest"
	ocispec "github.com/opencontainers/image-spec/specs-go/v1"
	"verifharness/common"
	"verifharness/dag"
)

type regEntry struct {
	mediaType string
	data      []byte
}

type fakeRegistry struct {
	manifests map[string]regEntry // by digest
	blobs     map[string][]byte
	tags      map[string]string // tag -> digest
	referrers map[string][]ocispec.Descriptor
	api       bool
	page      int    // server-side cap on a referrers page (0 = none)
	split     bool   // pages may be shorter than both the cap and the requested n
	filters   bool   // the artifactType query parameter is applied (and announced) by the registry
	seed      uint64 // PRNG key of the page lengths
	srv       *httptest.Server

	mu        sync.Mutex
	countdown int  // > 0: the countdown-th request from now is answered 403 (fault injection)
	didFire   bool
}

// arm makes the k-th request from now fail (k = 0 disarms).
func (f *fakeRegistry) arm(k int) {
	f.mu.Lock()
	defer f.mu.Unlock()
	f.countdown, f.didFire = k, false
}

func (f *fakeRegistry) fired() bool {
	f.mu.Lock()
	defer f.mu.Unlock()
	return f.didFire
}

func (f *fakeRegistry) faultNow() bool {
	f.mu.Lock()
	defer f.mu.Unlock()
	if f.countdown > 0 {
		f.countdown--
		if f.countdown == 0 {
			f.didFire = true
			return true
		}
	}
	return false
}

func (f *fakeRegistry) host() string { return strings.TrimPrefix(f.srv.URL, "http://") }

func newFakeRegistry(g *dag.Graph, spec *caseSpec) (reg *fakeRegistry, err error) {
	f := &fakeRegistry{manifests: map[string]regEntry{}, blobs: map[string][]byte{}, tags: map[string]string{},
		referrers: map[string][]ocispec.Descriptor{}, api: spec.Src == "remote-api", page: spec.Page,
		split: spec.Split, filters: spec.ServerFilter, seed: spec.PermSeed}
	for _, n := range g.Nodes {
		if n.Foreign() {
			continue
		}
		if n.IsManifest() {
			f.manifests[n.Desc.Digest.String()] = regEntry{n.Desc.MediaType, n.Bytes}
		} else {
			f.blobs[n.Desc.Digest.String()] = n.Bytes
		}
	}
	for _, s := range g.Nodes {
		var refs []*dag.Node
		for _, n := range g.Nodes {
			if n.Subject == s.ID {
				refs = append(refs, n)
			}
		}
		if len(refs) == 0 {
			continue
		}
		pr := common.NewRand(spec.PermSeed*1000003 + uint64(s.ID) + 17)
		common.Shuffle(pr, refs)
		var ds []ocispec.Descriptor
		for _, n := range refs {
			d := n.Desc
			d.ArtifactType = effType(g, n)
			omitAnn := false
			if spec.Incomplete {
				// a registry that does not fill in the optional fields
				if pr.Chance(1, 2) {
					d.ArtifactType = ""
				}
				omitAnn = pr.Chance(1, 2)
			}
			if n.Annotations != nil && !omitAnn {
				d.Annotations = map[string]string{}
				for k, v := range n.Annotations {
					d.Annotations[k] = v
				}
			}
			ds = append(ds, d)
		}
		key := s.Desc.Digest.String()
		f.referrers[key] = ds
		if !f.api {
			ix := ocispec.Index{MediaType: ocispec.MediaTypeImageIndex, Manifests: ds}
			ix.SchemaVersion = 2
			data, _ := json.Marshal(ix)
			dg := digest.FromBytes(data)
			f.manifests[dg.String()] = regEntry{ocispec.MediaTypeImageIndex, data}
			f.tags[strings.Replace(key, ":", "-", 1)] = dg.String()
		}
	}
	if g.Nodes[spec.Start].IsManifest() {
		f.tags[startTag(spec.Start)] = g.Nodes[spec.Start].Desc.Digest.String()
	}
	defer func() {
		// httptest.NewServer panics when no loopback listener can be opened
		if p := recover(); p != nil {
			reg, err = nil, fmt.Errorf("in-memory registry: %v", p)
		}
	}()
	f.srv = httptest.NewServer(f)
	return f, nil
}

func (f *fakeRegistry) serveContent(w http.ResponseWriter, r *http.Request, mt, dg string, data []byte) {
	w.Header().Set("Content-Type", mt)
	w.Header().Set("Docker-Content-Digest", dg)
	w.Header().Set("Content-Length", strconv.Itoa(len(data)))
	w.WriteHeader(http.StatusOK)
	if r.Method != http.MethodHead {
		w.Write(data)
	}
}

func (f *fakeRegistry) ServeHTTP(w http.ResponseWriter, r *http.Request) {
	if r.Method != http.MethodGet && r.Method != http.MethodHead {
		http.Error(w, "read-only", http.StatusMethodNotAllowed)
		return
	}
	if f.faultNow() {
		// not retried by the client's retry policy (4xx), unlike a 5xx
		http.Error(w, `{"errors":[{"code":"DENIED","message":"injected"}]}`, http.StatusForbidden)
		return
	}
	p := r.URL.Path
	switch {
	case p == "/v2/" || p == "/v2":
		w.WriteHeader(http.StatusOK)
	case strings.HasPrefix(p, "/v2/repo/manifests/"):
		ref := strings.TrimPrefix(p, "/v2/repo/manifests/")
		if d, ok := f.tags[ref]; ok {
			ref = d
		}
		e, ok := f.manifests[ref]
		if !ok {
			http.NotFound(w, r)
			return
		}
		f.serveContent(w, r, e.mediaType, ref, e.data)
	case strings.HasPrefix(p, "/v2/repo/blobs/"):
		ref := strings.TrimPrefix(p, "/v2/repo/blobs/")
		data, ok := f.blobs[ref]
		if !ok {
			http.NotFound(w, r)
			return
		}
		f.serveContent(w, r, "application/octet-stream", ref, data)
	case strings.HasPrefix(p, "/v2/repo/referrers/"):
		if !f.api {
			http.NotFound(w, r)
			return
		}
		ref := strings.TrimPrefix(p, "/v2/repo/referrers/")
		all := f.referrers[ref]
		q := r.URL.Query()
		at := q.Get("artifactType")
		if at != "" && f.filters {
			// server-side filtering: exact comparison, announced in the response
			var kept []ocispec.Descriptor
			for _, d := range all {
				if d.ArtifactType == at {
					kept = append(kept, d)
				}
			}
			all = kept
			w.Header().Set("OCI-Filters-Applied", "artifactType")
		}
		from := 0
		if s := q.Get("from"); s != "" {
			from, _ = strconv.Atoi(s)
		}
		if from > len(all) {
			from = len(all)
		}
		// page length: at most the registry's cap and the requested n; a registry
		// may serve fewer items than asked for and still have more (Link present)
		limit := len(all) - from
		if f.page > 0 && f.page < limit {
			limit = f.page
		}
		if n, err := strconv.Atoi(q.Get("n")); err == nil && n > 0 && n < limit {
			limit = n
		}
		if f.split && limit > 1 {
			pr := common.NewRand(f.seed*7919 + uint64(from)*31 + uint64(len(all)))
			limit = 1 + pr.Intn(limit)
		}
		to := from + limit
		if to < len(all) {
			link := fmt.Sprintf("/v2/repo/referrers/%s?from=%d", ref, to)
			if at != "" {
				link += "&artifactType=" + url.QueryEscape(at)
			}
			w.Header().Set("Link", fmt.Sprintf("<%s>; rel=\"next\"", link))
		}
		ix := ocispec.Index{MediaType: ocispec.MediaTypeImageIndex, Manifests: append([]ocispec.Descriptor{}, all[from:to]...)}
		ix.SchemaVersion = 2
		data, _ := json.Marshal(ix)
		w.Header().Set("Content-Type", ocispec.MediaTypeImageIndex)
		w.Header().Set("Content-Length", strconv.Itoa(len(data)))
		w.WriteHeader(http.StatusOK)
		w.Write(data)
	default:
		http.NotFound(w, r)
	}
}
