package main

// Small-scope exhaustive stream: EVERY predecessor graph on up to 4 nodes (5 in the thorough
// tier, served orders sampled there) x every served order x every start node x Depth 0..3,
// on a stub source that serves the table directly (no content: findRoots without filters only
// calls Predecessors).  Compared with the model (roots and call sequence) and judged by an
// oracle on the edge list.

import (
	"context"
	"encoding/json"
	"errors"
	"fmt"
	"io"
	"sort"

	"github.com/opencontainers/go-digest"
	ocispec "github.com/opencontainers/image-spec/specs-go/v1"
	oras "oras.land/oras-go/v2"
	"verifharness/common"
)

type smallCase struct {
	Preds [][]int `json:"preds"` // served predecessor lists (order = served order), preds[i] > i
	Start int     `json:"start"`
	Limit int     `json:"limit"`
}

type stubSrc struct {
	descs  []ocispec.Descriptor
	byKey  map[string]int
	preds  [][]int
	listed []int
}

func newStub(preds [][]int) *stubSrc {
	s := &stubSrc{byKey: map[string]int{}, preds: preds}
	for i := range preds {
		d := ocispec.Descriptor{MediaType: "application/octet-stream", Digest: digest.FromString(fmt.Sprintf("small-%d", i)), Size: int64(i + 1)}
		s.descs = append(s.descs, d)
		s.byKey[keyOf(d)] = i
	}
	return s
}

func (s *stubSrc) Fetch(context.Context, ocispec.Descriptor) (io.ReadCloser, error) {
	return nil, errors.New("stub source has no content")
}
func (s *stubSrc) Exists(context.Context, ocispec.Descriptor) (bool, error) { return true, nil }
func (s *stubSrc) Predecessors(_ context.Context, d ocispec.Descriptor) ([]ocispec.Descriptor, error) {
	i, ok := s.byKey[keyOf(d)]
	if !ok {
		return nil, nil
	}
	s.listed = append(s.listed, i)
	var out []ocispec.Descriptor
	for _, p := range s.preds[i] {
		out = append(out, s.descs[p])
	}
	return out, nil
}

func runSmall(c *smallCase) {
	n := len(c.Preds)
	if c.Start < 0 || c.Start >= n {
		return
	}
	id := run.NewID()
	src := newStub(c.Preds)
	var roots []ocispec.Descriptor
	var err error
	if !bounded(func() {
		roots, err = oras.VerifFindRoots(context.Background(), src, src.descs[c.Start], oras.ExtendedCopyGraphOptions{Depth: c.Limit})
	}) {
		hangs++
		run.OracleFail(id, "findroots-hang", "findRoots did not return on a small graph", map[string]any{"smallgraph": c})
		return
	}
	obs := "ERR"
	seen := map[int]bool{}
	if err == nil {
		for _, r := range roots {
			if i, ok := src.byKey[keyOf(r)]; ok {
				seen[i] = true
			} else {
				seen[-1] = true
			}
		}
		obs = "OK " + idsString(sortedKeys(seen)) + " " + idsString(src.listed)
	}
	parts := []string{}
	for i := 0; i < n; i++ {
		parts = append(parts, "O", "-", "-", "~", fmt.Sprint(len(c.Preds[i])))
		for _, p := range c.Preds[i] {
			parts = append(parts, fmt.Sprint(p), "-", "~")
		}
	}
	js, _ := json.Marshal(map[string]any{"smallgraph": c})
	line := fmt.Sprintf("FR %d %d %d 0 0", n, c.Limit, c.Start)
	for _, p := range parts {
		line += " " + p
	}
	run.Case(id, line+" "+rawReplayTok(js), obs)
	run.Count("small-scope")
	if c.Limit > 0 || len(seen) != 1 || !seen[c.Start] {
		run.Nontrivial(line)
	}
	fail := func(sig, msg string) { run.OracleFail(id, sig, msg, map[string]any{"smallgraph": c}) }
	if err != nil {
		fail("unexpected-error", fmt.Sprintf("findRoots on the stub source: %v", err))
		return
	}
	// ground truth from the edge list
	dist := map[int]int{c.Start: 0}
	queue := []int{c.Start}
	for len(queue) > 0 {
		x := queue[0]
		queue = queue[1:]
		for _, p := range c.Preds[x] {
			if _, ok := dist[p]; !ok {
				dist[p] = dist[x] + 1
				queue = append(queue, p)
			}
		}
	}
	rootIDs := sortedKeys(seen)
	if c.Limit <= 0 {
		var want []int
		for a := range dist {
			if len(c.Preds[a]) == 0 {
				want = append(want, a)
			}
		}
		sort.Ints(want)
		if idsString(want) != idsString(rootIDs) {
			fail("roots-unlimited", fmt.Sprintf("small graph %v from %d: roots %v, tops of the upward closure %v", c.Preds, c.Start, rootIDs, want))
		}
		return
	}
	level := map[int]bool{c.Start: true}
	for i := 0; i < c.Limit; i++ {
		next := map[int]bool{}
		for x := range level {
			for _, p := range c.Preds[x] {
				next[p] = true
			}
		}
		level = next
	}
	if len(rootIDs) == 0 {
		fail("depth-no-root", fmt.Sprintf("small graph %v from %d depth %d: no root", c.Preds, c.Start, c.Limit))
	}
	for _, r := range rootIDs {
		d, ok := dist[r]
		if !ok || d > c.Limit {
			fail("depth-root-too-far", fmt.Sprintf("small graph %v from %d depth %d: root %d is not within %d steps", c.Preds, c.Start, c.Limit, r, c.Limit))
			return
		}
		if len(c.Preds[r]) != 0 && !level[r] {
			fail("depth-root-not-top", fmt.Sprintf("small graph %v from %d depth %d: root %d has predecessors and no path of length %d", c.Preds, c.Start, c.Limit, r, c.Limit))
			return
		}
	}
}

// permutations of xs (all of them)
func perms(xs []int) [][]int {
	if len(xs) <= 1 {
		return [][]int{append([]int(nil), xs...)}
	}
	var out [][]int
	for i := range xs {
		rest := append(append([]int(nil), xs[:i]...), xs[i+1:]...)
		for _, p := range perms(rest) {
			out = append(out, append([]int{xs[i]}, p...))
		}
	}
	return out
}

func smallScope(r *common.Rand) {
	maxN := run.Scale(4, 5)
	for n := 2; n <= maxN && hangs == 0; n++ {
		var pairs [][2]int
		for i := 0; i < n; i++ {
			for j := i + 1; j < n; j++ {
				pairs = append(pairs, [2]int{i, j})
			}
		}
		for mask := 0; mask < 1<<len(pairs) && hangs == 0; mask++ {
			base := make([][]int, n)
			for b, pr := range pairs {
				if mask&(1<<b) != 0 {
					base[pr[0]] = append(base[pr[0]], pr[1]) // pr[1] is a predecessor of pr[0]
				}
			}
			// served orders: all combinations of per-node permutations (n <= 4), sampled for n = 5
			var orders [][][]int
			if n <= 4 {
				orders = [][][]int{{}}
				for i := 0; i < n; i++ {
					var next [][][]int
					for _, o := range orders {
						for _, p := range perms(base[i]) {
							next = append(next, append(append([][]int(nil), o...), p))
						}
					}
					orders = next
				}
			} else {
				id := make([][]int, n)
				rev := make([][]int, n)
				for i := range base {
					id[i] = append([]int(nil), base[i]...)
					for k := len(base[i]) - 1; k >= 0; k-- {
						rev[i] = append(rev[i], base[i][k])
					}
				}
				orders = [][][]int{id, rev}
				for k := 0; k < 2; k++ {
					o := make([][]int, n)
					for i := range base {
						o[i] = append([]int(nil), base[i]...)
						common.Shuffle(r, o[i])
					}
					orders = append(orders, o)
				}
			}
			for _, o := range orders {
				for start := 0; start < n; start++ {
					for depth := 0; depth <= 3; depth++ {
						runSmall(&smallCase{Preds: o, Start: start, Limit: depth})
					}
				}
			}
		}
	}
}
