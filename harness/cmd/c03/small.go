package main

// Small-scope exhaustive stream: EVERY predecessor graph on up to 4 nodes (5 in the thorough
// tier, served orders sampled there) x every served order x every start node x Depth 0..3,
// on a stub source that serves the table directly (no content: findRoots without filters only
// calls Predecessors).  Compared with the model (roots and call sequence) and judged by an
// oracle on the edge list.

import (
	"bytes"
	"context"
	"encoding/json"
	"errors"
	"fmt"
	"io"
	"sort"

	"github.com/opencontainers/go-digest"
	ocispec "github.com/opencontainers/image-spec/specs-go/v1"
	oras "oras.land/oras-go/v2"
	"verifharness/common"
)

type smallCase struct {
	Preds [][]int `json:"preds"` // served predecessor lists (order = served order), preds[i] > i
	Start int     `json:"start"`
	Limit int     `json:"limit"`
}

type stubSrc struct {
	descs  []ocispec.Descriptor
	byKey  map[string]int
	preds  [][]int
	listed []int
}

func newStub(preds [][]int) *stubSrc {
	s := &stubSrc{byKey: map[string]int{}, preds: preds}
	for i := range preds {
		d := ocispec.Descriptor{MediaType: "application/octet-stream", Digest: digest.FromString(fmt.Sprintf("small-%d", i)), Size: int64(i + 1)}
		s.descs = append(s.descs, d)
		s.byKey[keyOf(d)] = i
	}
	return s
}

func (s *stubSrc) Fetch(context.Context, ocispec.Descriptor) (io.ReadCloser, error) {
	return nil, errors.New("stub source has no content")
}
func (s *stubSrc) Exists(context.Context, ocispec.Descriptor) (bool, error) { return true, nil }
func (s *stubSrc) Predecessors(_ context.Context, d ocispec.Descriptor) ([]ocispec.Descriptor, error) {
	i, ok := s.byKey[keyOf(d)]
	if !ok {
		return nil, nil
	}
	s.listed = append(s.listed, i)
	var out []ocispec.Descriptor
	for _, p := range s.preds[i] {
		out = append(out, s.descs[p])
	}
	return out, nil
}

func runSmall(c *smallCase) {
	n := len(c.Preds)
	if c.Start < 0 || c.Start >= n {
		return
	}
	id := run.NewID()
	src := newStub(c.Preds)
	var roots []ocispec.Descriptor
	var err error
	if !bounded(func() {
		roots, err = oras.VerifFindRoots(context.Background(), src, src.descs[c.Start], oras.ExtendedCopyGraphOptions{Depth: c.Limit})
	}) {
		hangs++
		run.OracleFail(id, "findroots-hang", "findRoots did not return on a small graph", map[string]any{"smallgraph": c})
		return
	}
	obs := "ERR"
	seen := map[int]bool{}
	if err == nil {
		for _, r := range roots {
			if i, ok := src.byKey[keyOf(r)]; ok {
				seen[i] = true
			} else {
				seen[-1] = true
			}
		}
		obs = "OK " + idsString(sortedKeys(seen)) + " " + idsString(src.listed)
	}
	parts := []string{}
	for i := 0; i < n; i++ {
		parts = append(parts, "O", "-", "-", "~", fmt.Sprint(len(c.Preds[i])))
		for _, p := range c.Preds[i] {
			parts = append(parts, fmt.Sprint(p), "-", "~")
		}
	}
	js, _ := json.Marshal(map[string]any{"smallgraph": c})
	line := fmt.Sprintf("FR %d %d %d 0 0", n, c.Limit, c.Start)
	for _, p := range parts {
		line += " " + p
	}
	run.Case(id, line+" "+rawReplayTok(js), obs)
	run.Count("small-scope")
	if c.Limit > 0 || len(seen) != 1 || !seen[c.Start] {
		run.Nontrivial(line)
	}
	fail := func(sig, msg string) { run.OracleFail(id, sig, msg, map[string]any{"smallgraph": c}) }
	if err != nil {
		fail("unexpected-error", fmt.Sprintf("findRoots on the stub source: %v", err))
		return
	}
	// ground truth from the edge list
	dist := map[int]int{c.Start: 0}
	queue := []int{c.Start}
	for len(queue) > 0 {
		x := queue[0]
		queue = queue[1:]
		for _, p := range c.Preds[x] {
			if _, ok := dist[p]; !ok {
				dist[p] = dist[x] + 1
				queue = append(queue, p)
			}
		}
	}
	rootIDs := sortedKeys(seen)
	if c.Limit <= 0 {
		var want []int
		for a := range dist {
			if len(c.Preds[a]) == 0 {
				want = append(want, a)
			}
		}
		sort.Ints(want)
		if idsString(want) != idsString(rootIDs) {
			fail("roots-unlimited", fmt.Sprintf("small graph %v from %d: roots %v, tops of the upward closure %v", c.Preds, c.Start, rootIDs, want))
		}
		return
	}
	level := map[int]bool{c.Start: true}
	for i := 0; i < c.Limit; i++ {
		next := map[int]bool{}
		for x := range level {
			for _, p := range c.Preds[x] {
				next[p] = true
			}
		}
		level = next
	}
	if len(rootIDs) == 0 {
		fail("depth-no-root", fmt.Sprintf("small graph %v from %d depth %d: no root", c.Preds, c.Start, c.Limit))
	}
	for _, r := range rootIDs {
		d, ok := dist[r]
		if !ok || d > c.Limit {
			fail("depth-root-too-far", fmt.Sprintf("small graph %v from %d depth %d: root %d is not within %d steps", c.Preds, c.Start, c.Limit, r, c.Limit))
			return
		}
		if len(c.Preds[r]) != 0 && !level[r] {
			fail("depth-root-not-top", fmt.Sprintf("small graph %v from %d depth %d: root %d has predecessors and no path of length %d", c.Preds, c.Start, c.Limit, r, c.Limit))
			return
		}
	}
}

// permutations of xs (all of them)
func perms(xs []int) [][]int {
	if len(xs) <= 1 {
		return [][]int{append([]int(nil), xs...)}
	}
	var out [][]int
	for i := range xs {
		rest := append(append([]int(nil), xs[:i]...), xs[i+1:]...)
		for _, p := range perms(rest) {
			out = append(out, append([]int{xs[i]}, p...))
		}
	}
	return out
}

func smallScope(r *common.Rand) {
	maxN := run.Scale(4, 5)
	for n := 2; n <= maxN && hangs == 0; n++ {
		var pairs [][2]int
		for i := 0; i < n; i++ {
			for j := i + 1; j < n; j++ {
				pairs = append(pairs, [2]int{i, j})
			}
		}
		for mask := 0; mask < 1<<len(pairs) && hangs == 0; mask++ {
			base := make([][]int, n)
			for b, pr := range pairs {
				if mask&(1<<b) != 0 {
					base[pr[0]] = append(base[pr[0]], pr[1]) // pr[1] is a predecessor of pr[0]
				}
			}
			// served orders: all combinations of per-node permutations (n <= 4), sampled for n = 5
			var orders [][][]int
			if n <= 4 {
				orders = [][][]int{{}}
				for i := 0; i < n; i++ {
					var next [][][]int
					for _, o := range orders {
						for _, p := range perms(base[i]) {
							next = append(next, append(append([][]int(nil), o...), p))
						}
					}
					orders = next
				}
			} else {
				id := make([][]int, n)
				rev := make([][]int, n)
				for i := range base {
					id[i] = append([]int(nil), base[i]...)
					for k := len(base[i]) - 1; k >= 0; k-- {
						rev[i] = append(rev[i], base[i][k])
					}
				}
				orders = [][][]int{id, rev}
				for k := 0; k < 2; k++ {
					o := make([][]int, n)
					for i := range base {
						o[i] = append([]int(nil), base[i]...)
						common.Shuffle(r, o[i])
					}
					orders = append(orders, o)
				}
			}
			for _, o := range orders {
				for start := 0; start < n; start++ {
					for depth := 0; depth <= 3; depth++ {
						runSmall(&smallCase{Preds: o, Start: start, Limit: depth})
					}
				}
			}
		}
	}
}

// ---------------------------------------------------------------- small scope with filters
//
// The same exhaustive graphs (n <= 3 in the quick tier, 4 in thorough), now with content: node 0 is
// a blob, node i > 0 a manifest whose kind / artifactType / config type / annotations follow from
// i, served plain or with its fields filled in; one of three filter stacks.  Compared with the
// model (roots, call sequence, opts.FindPredecessors output per node) and judged on the attributes.

type smallAttr struct {
	kind, mt, at, cfg string
	ann               map[string]string
}

func smallAttrs(i int) smallAttr {
	switch {
	case i == 0:
		return smallAttr{kind: "O", mt: "application/octet-stream"}
	case i%3 == 1:
		return smallAttr{kind: "I", mt: ocispec.MediaTypeImageManifest, at: "t/a", cfg: "c/x", ann: map[string]string{"k": "v"}}
	case i%3 == 2:
		return smallAttr{kind: "I", mt: ocispec.MediaTypeImageManifest, at: "", cfg: "t/a"}
	default:
		return smallAttr{kind: "X", mt: ocispec.MediaTypeImageIndex, at: "t/b", ann: map[string]string{"k": "w"}}
	}
}

func (a smallAttr) eff() string {
	if a.kind == "I" && a.at == "" {
		return a.cfg
	}
	return a.at
}

type smallFCase struct {
	Preds   [][]int `json:"preds"`
	Start   int     `json:"start"`
	Limit   int     `json:"limit"`
	Rich    bool    `json:"rich"`
	Filters int     `json:"filters"` // 0: A ^t/a$   1: N k (nil regex)   2: N k ^v$ then A t/
}

type stubFSrc struct {
	*stubSrc
	rich bool
}

func (s stubFSrc) desc(i int) ocispec.Descriptor {
	a := smallAttrs(i)
	d := ocispec.Descriptor{MediaType: a.mt, Digest: digest.FromString(fmt.Sprintf("smallf-%d", i)), Size: int64(i + 1)}
	return d
}

func (s stubFSrc) Fetch(_ context.Context, d ocispec.Descriptor) (io.ReadCloser, error) {
	i, ok := s.byKey[keyOf(d)]
	if !ok {
		return nil, errors.New("unknown")
	}
	a := smallAttrs(i)
	doc := map[string]any{"schemaVersion": 2, "mediaType": a.mt}
	if a.at != "" {
		doc["artifactType"] = a.at
	}
	if a.kind == "I" {
		doc["config"] = map[string]any{"mediaType": a.cfg, "digest": digest.FromString("cfg").String(), "size": 2}
		doc["layers"] = []any{}
	} else {
		doc["manifests"] = []any{}
	}
	if a.ann != nil {
		doc["annotations"] = a.ann
	}
	js, _ := json.Marshal(doc)
	return io.NopCloser(bytes.NewReader(js)), nil
}

func (s stubFSrc) Predecessors(_ context.Context, d ocispec.Descriptor) ([]ocispec.Descriptor, error) {
	i, ok := s.byKey[keyOf(d)]
	if !ok {
		return nil, nil
	}
	s.stubSrc.listed = append(s.stubSrc.listed, i)
	var out []ocispec.Descriptor
	for _, p := range s.preds[i] {
		pd := s.descs[p]
		if s.rich {
			a := smallAttrs(p)
			pd.ArtifactType = a.eff()
			pd.Annotations = map[string]string{}
			for k, v := range a.ann {
				pd.Annotations[k] = v
			}
		}
		out = append(out, pd)
	}
	return out, nil
}

func smallFilters(which int) []filterSpec {
	s := func(x string) *string { return &x }
	switch which {
	case 0:
		return []filterSpec{{Kind: "A", Regex: s("^t/a$")}}
	case 1:
		return []filterSpec{{Kind: "N", Key: "k"}}
	default:
		return []filterSpec{{Kind: "N", Key: "k", Regex: s("^v$")}, {Kind: "A", Regex: s("t/")}}
	}
}

func runSmallF(c *smallFCase) {
	n := len(c.Preds)
	if c.Start < 0 || c.Start >= n {
		return
	}
	id := run.NewID()
	base := &stubSrc{byKey: map[string]int{}, preds: c.Preds}
	src := stubFSrc{stubSrc: base, rich: c.Rich}
	for i := 0; i < n; i++ {
		d := src.desc(i)
		base.descs = append(base.descs, d)
		base.byKey[keyOf(d)] = i
	}
	fs := compileFilters(smallFilters(c.Filters))
	mkOpts := func() oras.ExtendedCopyGraphOptions {
		o := oras.ExtendedCopyGraphOptions{Depth: c.Limit}
		for _, f := range fs {
			if f.spec.Kind == "A" {
				o.FilterArtifactType(f.re)
			} else {
				o.FilterAnnotation(f.spec.Key, f.re)
			}
		}
		return o
	}
	replayObj := map[string]any{"smallfilter": c}
	var roots []ocispec.Descriptor
	var err error
	if !bounded(func() { roots, err = oras.VerifFindRoots(context.Background(), src, base.descs[c.Start], mkOpts()) }) {
		hangs++
		run.OracleFail(id, "findroots-hang", "findRoots did not return on a small graph with filters", replayObj)
		return
	}
	seen := map[int]bool{}
	obs := "ERR"
	if err == nil {
		for _, r := range roots {
			seen[base.byKey[keyOf(r)]] = true
		}
		obs = "OK " + idsString(sortedKeys(seen)) + " " + idsString(base.listed)
	}
	// model input
	keep := func(p int) bool {
		a := smallAttrs(p)
		for _, f := range fs {
			if f.spec.Kind == "A" {
				if !f.re.MatchString(a.eff()) {
					return false
				}
			} else {
				v, ok := a.ann[f.spec.Key]
				if !ok || (f.re != nil && !f.re.MatchString(v)) {
					return false
				}
			}
		}
		return true
	}
	atPool := []string{"", "t/a", "t/b", "c/x"}
	annPool := []string{"", "v", "w"}
	ftoks := []string{fmt.Sprint(len(fs))}
	for _, f := range fs {
		switch {
		case f.spec.Kind == "A":
			ftoks = append(ftoks, "A", tableTok(f.re, atPool))
		case f.re == nil:
			ftoks = append(ftoks, "N0", common.Hex(f.spec.Key))
		default:
			ftoks = append(ftoks, "N", common.Hex(f.spec.Key), tableTok(f.re, annPool))
		}
	}
	var ntoks []string
	for i := 0; i < n; i++ {
		a := smallAttrs(i)
		ntoks = append(ntoks, a.kind, common.Hex(a.at), common.Hex(a.cfg), annTok(a.ann), fmt.Sprint(len(c.Preds[i])))
		for _, p := range c.Preds[i] {
			pa := smallAttrs(p)
			if c.Rich {
				m := map[string]string{}
				for k, v := range pa.ann {
					m[k] = v
				}
				ntoks = append(ntoks, fmt.Sprint(p), common.Hex(pa.eff()), annTok(m))
			} else {
				ntoks = append(ntoks, fmt.Sprint(p), "-", "~")
			}
		}
	}
	js, _ := json.Marshal(replayObj)
	tail := ""
	for _, t := range append(ftoks, ntoks...) {
		tail += " " + t
	}
	run.Case(id, fmt.Sprintf("FR %d %d %d 0%s %s", n, c.Limit, c.Start, tail, rawReplayTok(js)), obs)
	run.Count("small-scope-filters")
	run.Nontrivial(fmt.Sprintf("FRF %d %d %v %d%s", c.Limit, c.Start, c.Rich, c.Filters, tail))
	fail := func(sig, msg string) { run.OracleFail(id, sig, msg, replayObj) }
	if err != nil {
		fail("unexpected-error", fmt.Sprintf("findRoots on the stub source with filters: %v", err))
		return
	}
	// opts.FindPredecessors per node: exactness
	o := mkOpts()
	for x := 0; x < n; x++ {
		fid := run.NewID()
		out, ferr := o.FindPredecessors(context.Background(), src, base.descs[x])
		fobs := "ERR"
		var got, want []int
		if ferr == nil {
			fobs = "P"
			for _, p := range out {
				pid := base.byKey[keyOf(p)]
				got = append(got, pid)
				fobs += fmt.Sprintf(" %d:%s:%s", pid, common.Hex(p.ArtifactType), annTok(p.Annotations))
			}
		}
		run.Case(fid, fmt.Sprintf("FP %d %d 0%s %s", n, x, tail, rawReplayTok(js)), fobs)
		for _, p := range c.Preds[x] {
			if keep(p) {
				want = append(want, p)
			}
		}
		if ferr != nil {
			run.OracleFail(fid, "unexpected-error", fmt.Sprintf("FindPredecessors(%d): %v", x, ferr), replayObj)
		} else if idsString(got) != idsString(want) { // order preserved
			run.OracleFail(fid, "filter-exact", fmt.Sprintf("small graph %v filters %d rich %v: node %d follows %v, manifests satisfying the filters (in served order) %v", c.Preds, c.Filters, c.Rich, x, got, want), replayObj)
		}
	}
	// roots: unlimited = tops of the filtered closure
	if c.Limit <= 0 {
		reach := map[int]bool{c.Start: true}
		queue := []int{c.Start}
		for len(queue) > 0 {
			x := queue[0]
			queue = queue[1:]
			for _, p := range c.Preds[x] {
				if keep(p) && !reach[p] {
					reach[p] = true
					queue = append(queue, p)
				}
			}
		}
		var want []int
		for a := range reach {
			top := true
			for _, p := range c.Preds[a] {
				if keep(p) {
					top = false
				}
			}
			if top {
				want = append(want, a)
			}
		}
		sort.Ints(want)
		if idsString(want) != idsString(sortedKeys(seen)) {
			fail("roots-filtered", fmt.Sprintf("small graph %v from %d filters %d: roots %v, tops of the filtered closure %v", c.Preds, c.Start, c.Filters, sortedKeys(seen), want))
		}
	}
}

func smallScopeFilters() {
	maxN := run.Scale(3, 4)
	for n := 2; n <= maxN && hangs == 0; n++ {
		var pairs [][2]int
		for i := 0; i < n; i++ {
			for j := i + 1; j < n; j++ {
				pairs = append(pairs, [2]int{i, j})
			}
		}
		for mask := 0; mask < 1<<len(pairs) && hangs == 0; mask++ {
			base := make([][]int, n)
			for b, pr := range pairs {
				if mask&(1<<b) != 0 {
					base[pr[0]] = append(base[pr[0]], pr[1])
				}
			}
			rev := make([][]int, n)
			for i := range base {
				for k := len(base[i]) - 1; k >= 0; k-- {
					rev[i] = append(rev[i], base[i][k])
				}
			}
			for _, o := range [][][]int{base, rev} {
				for start := 0; start < n; start++ {
					for _, depth := range []int{0, 1} {
						for _, rich := range []bool{false, true} {
							for f := 0; f < 3; f++ {
								runSmallF(&smallFCase{Preds: o, Start: start, Limit: depth, Rich: rich, Filters: f})
							}
						}
					}
				}
			}
		}
	}
}
