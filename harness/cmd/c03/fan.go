package main

// Referrer-fan graphs: one base image with chains and fans of referrers
// (images / artifact manifests with a subject), referrers of referrers and
// indexes over referrers.  harness/dag draws subjects rarely; these graphs
// make the upward structure (what C03 is about) deep and wide.

import (
	"encoding/json"
	"fmt"

	ocispec "github.com/opencontainers/image-spec/specs-go/v1"
	"verifharness/common"
	"verifharness/dag"
)

type fanArtifact struct {
	MediaType    string               `json:"mediaType"`
	ArtifactType string               `json:"artifactType"`
	Blobs        []ocispec.Descriptor `json:"blobs,omitempty"`
	Subject      *ocispec.Descriptor  `json:"subject,omitempty"`
	Annotations  map[string]string    `json:"annotations,omitempty"`
}

func fanGraph(r *common.Rand) *dag.Graph {
	for {
		g := fanGraphOnce(r)
		seen := map[string]bool{}
		dup := false
		for _, n := range g.Nodes {
			if seen[n.Desc.Digest.String()] {
				dup = true
			}
			seen[n.Desc.Digest.String()] = true
		}
		if !dup {
			return g
		}
	}
}

func fanGraphOnce(r *common.Rand) *dag.Graph {
	var es []dag.Encoded
	var descs []ocispec.Descriptor
	add := func(e dag.Encoded) int {
		e.TwinOf = -1
		es = append(es, e)
		g := dag.Decode([]dag.Encoded{e})
		descs = append(descs, g.Nodes[0].Desc)
		return len(es) - 1
	}
	blob := func(kind, mt, text string) int {
		return add(dag.Encoded{Kind: kind, MediaType: mt, Bytes: []byte(text), Subject: -1})
	}
	var manifests []int
	annotations := func() map[string]string {
		if r.Chance(1, 2) {
			return map[string]string{"verif.key": common.Pick(r, []string{"alpha", "beta", "gamma"})}
		}
		return nil
	}
	// embedded descriptors (index entries, subject fields) may carry their own annotations /
	// artifactType, independent of the manifest they point to (image-spec: BuildKit attestation
	// entries carry vnd.docker.reference.type); a reopened OCI layout indexes nested nodes with them
	entry := func(i int) ocispec.Descriptor {
		d := descs[i]
		if !r.Chance(2, 5) {
			return d
		}
		if r.Chance(2, 3) {
			d.Annotations = map[string]string{"verif.key": common.Pick(r, []string{"alpha", "beta", "gamma", "entry"})}
			if r.Chance(1, 3) {
				d.Annotations = map[string]string{"vnd.docker.reference.type": "attestation-manifest"}
			}
		}
		if r.Chance(1, 2) {
			d.ArtifactType = common.Pick(r, []string{"application/vnd.verif.sbom", "application/vnd.verif.entry", "application/vnd.verif.sig"})
		}
		return d
	}
	image := func(subject int) int {
		i := len(es)
		cfgMT := common.Pick(r, []string{ocispec.MediaTypeImageConfig, "application/vnd.verif.config.v1+json", "application/vnd.verif.sig"})
		cfg := blob(dag.KConfig, cfgMT, fmt.Sprintf("{\"n\":%d,\"x\":\"%x\"}", i, r.U64()))
		m := ocispec.Manifest{MediaType: ocispec.MediaTypeImageManifest, Config: descs[cfg], Layers: []ocispec.Descriptor{}}
		m.SchemaVersion = 2
		e := dag.Encoded{Kind: dag.KImage, MediaType: m.MediaType, Subject: subject}
		if subject >= 0 {
			d := entry(subject)
			m.Subject = &d
			e.Succ = append(e.Succ, subject)
		}
		e.Succ = append(e.Succ, cfg)
		if r.Chance(1, 2) {
			m.ArtifactType = common.Pick(r, []string{"application/vnd.verif.sbom", "application/vnd.verif.sig", "application/vnd.verif.doc"})
			e.ArtifactType = m.ArtifactType
		}
		m.Annotations = annotations()
		e.Annotations = m.Annotations
		e.Bytes, _ = json.Marshal(m)
		return add(e)
	}
	artifact := func(subject int) int {
		i := len(es)
		bl := blob(dag.KBlob, "application/octet-stream", fmt.Sprintf("artifact-blob-%d-%x", i, r.U64()))
		a := fanArtifact{MediaType: dag.MTArtifactManifest, Blobs: []ocispec.Descriptor{descs[bl]}}
		a.ArtifactType = common.Pick(r, []string{"application/vnd.verif.sbom", "application/vnd.verif.sig"})
		e := dag.Encoded{Kind: dag.KArtifact, MediaType: a.MediaType, Subject: subject, ArtifactType: a.ArtifactType}
		if subject >= 0 {
			d := descs[subject]
			a.Subject = &d
			e.Succ = append(e.Succ, subject)
		}
		e.Succ = append(e.Succ, bl)
		a.Annotations = annotations()
		e.Annotations = a.Annotations
		e.Bytes, _ = json.Marshal(a)
		return add(e)
	}
	index := func(subject int) int {
		ix := ocispec.Index{MediaType: ocispec.MediaTypeImageIndex, Manifests: []ocispec.Descriptor{}}
		ix.SchemaVersion = 2
		e := dag.Encoded{Kind: dag.KIndex, MediaType: ix.MediaType, Subject: subject}
		if subject >= 0 {
			d := entry(subject)
			ix.Subject = &d
			e.Succ = append(e.Succ, subject)
		}
		k := 1 + r.Intn(2)
		for j := 0; j < k; j++ {
			m := common.Pick(r, manifests)
			ix.Manifests = append(ix.Manifests, entry(m))
			e.Succ = append(e.Succ, m)
		}
		if r.Chance(1, 3) {
			ix.ArtifactType = "application/vnd.verif.idx"
			e.ArtifactType = ix.ArtifactType
		}
		ix.Annotations = annotations()
		if ix.Annotations == nil {
			ix.Annotations = map[string]string{}
		}
		// keep index bytes unique
		ix.Annotations["verif.n"] = fmt.Sprintf("%d-%x", len(es), r.U64())
		e.Annotations = ix.Annotations
		e.Bytes, _ = json.Marshal(ix)
		return add(e)
	}
	manifests = append(manifests, image(-1))
	n := 3 + r.Intn(7)
	// wide: most referrers hang on the base image (more referrers than one registry page)
	wide := r.Chance(1, 2)
	if wide {
		n = 5 + r.Intn(6)
	}
	for k := 0; k < n; k++ {
		subj := -1
		if wide && r.Chance(3, 4) {
			subj = manifests[0]
		} else if !r.Chance(1, 8) {
			// bias towards recent manifests: chains
			if r.Chance(1, 2) {
				subj = manifests[len(manifests)-1]
			} else {
				subj = common.Pick(r, manifests)
			}
		}
		var id int
		switch r.Intn(6) {
		case 0:
			id = artifact(subj)
		case 1:
			id = index(subj)
		default:
			id = image(subj)
		}
		manifests = append(manifests, id)
	}
	return dag.Decode(es)
}
