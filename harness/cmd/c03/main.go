// Harness for property C03: ExtendedCopy reaches every ancestor's graph; depth
// and filters bound it.
//
//	generator   random OCI DAGs (harness/dag) x source kind (memory, OCI layout
//	            fresh / reopened, file store) x descriptor style (plain / carrying
//	            artifactType+annotations) x start node x Depth x filter stack
//	impl        findRoots (hook), opts.FindPredecessors, fetchArtifactType (hook),
//	            ExtendedCopyGraph, ExtendedCopy on the real stores
//	oracle      generator's own inverse edge list and manifest fields: upward
//	            closure / depth bounds / filter semantics / destination contents
//	model       cases.txt lines for build/ml/c03_model (Model/FindRoots.v)
package main

import (
	"bytes"
	"compress/zlib"
	"context"
	_ "crypto/sha256"
	_ "crypto/sha512"
	"encoding/base64"
	"encoding/json"
	"errors"
	"fmt"
	"io"
	"os"
	"regexp"
	"sort"
	"strings"
	"time"

	"github.com/opencontainers/go-digest"
	ocispec "github.com/opencontainers/image-spec/specs-go/v1"
	oras "oras.land/oras-go/v2"
	"oras.land/oras-go/v2/content"
	"oras.land/oras-go/v2/content/file"
	"oras.land/oras-go/v2/content/memory"
	"oras.land/oras-go/v2/content/oci"
	"oras.land/oras-go/v2/registry"
	"oras.land/oras-go/v2/registry/remote"
	"verifharness/common"
	"verifharness/dag"
)

var run *common.Run

// generous bound for one copy of a graph of at most ~20 small nodes
const watchdog = 30 * time.Second

// a watchdog expiry is re-confirmed on a fresh destination with this (longer) bound before it is reported
const watchdogConfirm = 45 * time.Second

// hangs counts confirmed watchdog expiries; generation stops after the first one
var hangs int

// guarded runs attempt (which builds its own fresh destination) under the watchdog; an expiry is
// reported only when a second attempt with the longer bound expires too (a loaded machine or a
// slow disk must not look like a deadlock).
func guarded(attempt func(ctx context.Context) error) (err error, hung bool) {
	for _, bound := range []time.Duration{watchdog, watchdogConfirm} {
		wctx, cancel := context.WithTimeout(context.Background(), bound)
		done := make(chan error, 1)
		go func() { done <- attempt(wctx) }()
		select {
		case err = <-done:
			hung = wctx.Err() != nil
		case <-time.After(bound + 5*time.Second):
			// the call does not even come back after its context ended (a loop that never looks
			// at the context): it is left behind
			cancel()
			run.Count("watchdog-expired")
			abandoned = true
			return errors.New("the call ignores the cancellation of its context"), true
		}
		cancel()
		if !hung {
			return err, false
		}
		run.Count("watchdog-expired")
	}
	return err, true
}

// abandoned: a guarded call was left behind running; its destination must not be touched any more
var abandoned bool

// bounded runs f (a call that takes no context or may loop without looking at it: findRoots'
// loop) in a goroutine; false = it did not come back within the bound (the goroutine is left behind).
func bounded(f func()) bool {
	done := make(chan struct{})
	go func() { defer close(done); f() }()
	for _, bound := range []time.Duration{watchdog, watchdogConfirm} {
		t := time.NewTimer(bound)
		select {
		case <-done:
			t.Stop()
			return true
		case <-t.C:
			run.Count("watchdog-expired")
		}
	}
	return false
}

// faultSrc fails the countdown-th source operation (Predecessors, Fetch, Referrers) with errInjected.
type faultSrc struct {
	content.ReadOnlyGraphStorage
	countdown int
	hit       bool
	ops       int // operations seen
	listed    []ocispec.Descriptor // the nodes whose predecessors were listed (Predecessors / Referrers), in call order
}

func (f *faultSrc) tick() error {
	f.ops++
	if f.countdown > 0 {
		f.countdown--
		if f.countdown == 0 {
			f.hit = true
			return errInjected
		}
	}
	return nil
}
func (f *faultSrc) Fetch(ctx context.Context, d ocispec.Descriptor) (io.ReadCloser, error) {
	if err := f.tick(); err != nil {
		return nil, err
	}
	return f.ReadOnlyGraphStorage.Fetch(ctx, d)
}
func (f *faultSrc) Predecessors(ctx context.Context, d ocispec.Descriptor) ([]ocispec.Descriptor, error) {
	f.listed = append(f.listed, d)
	if err := f.tick(); err != nil {
		return nil, err
	}
	return f.ReadOnlyGraphStorage.Predecessors(ctx, d)
}

// faultLister keeps the ReferrerLister capability; a fault may also hit between two pages.
type faultLister struct{ *faultSrc }

func (f faultLister) Referrers(ctx context.Context, d ocispec.Descriptor, at string, fn func([]ocispec.Descriptor) error) error {
	f.listed = append(f.listed, d)
	if err := f.tick(); err != nil {
		return err
	}
	return f.ReadOnlyGraphStorage.(registry.ReferrerLister).Referrers(ctx, d, at, fn)
}

// ---------------------------------------------------------------- case description

type filterSpec struct {
	Kind  string  `json:"kind"` // "A" FilterArtifactType, "N" FilterAnnotation
	Key   string  `json:"key,omitempty"`
	Regex *string `json:"regex"` // nil = nil *regexp.Regexp
}

type caseSpec struct {
	Graph    []dag.Encoded `json:"graph"`
	Src      string        `json:"src"`   // mem | oci | ocireopen | ocifs | file | remote-api | remote-tags
	Incomplete bool        `json:"incomplete"` // remote: the registry omits artifactType / annotations of some referrers (not judged with filters)
	Page     int           `json:"page"`  // remote-api: the registry's cap on a referrers page (0 = none)
	ClientN  int           `json:"clientN"` // remote: Repository.ReferrerListPageSize (0 = not set)
	Split    bool          `json:"split"` // remote-api: the registry serves pages shorter than cap / n, Link while items remain
	ServerFilter bool      `json:"serverFilter"` // remote-api: the registry applies (and announces) the artifactType parameter
	Style    []int         `json:"style"` // per node: 0 plain, 1 manifest fields, 2 effective type + non-nil annotations
	Start    int           `json:"start"`
	Limit    int           `json:"limit"`
	Filters  []filterSpec  `json:"filters"`
	PermSeed uint64        `json:"permSeed"`
	Conc     int           `json:"conc"`
	Raw      bool          `json:"raw"` // ExtendedCopyGraph reads the store directly (map order of Predecessors)
	Custom   int           `json:"custom"`  // > 0 (local sources): opts.FindPredecessors is set by the caller before the filters: 1 reversed + plain descriptors, 2 drops a third of the predecessors
	Fault    int           `json:"fault"`   // > 0: one more ExtendedCopyGraph in which the Fault-th source operation fails
	Prefill  int           `json:"prefill"` // > 0: the destination starts with a link-closed subset (density in %) of the graph
	StartStyle int         `json:"startStyle"` // descriptor style of the given node passed to findRoots / ExtendedCopyGraph
	Dst      string        `json:"dst"` // mem | oci
	DstRef   string        `json:"dstRef"`
}

// ---------------------------------------------------------------- ground truth helpers

func kindLetter(k string) string {
	switch k {
	case dag.KImage:
		return "I"
	case dag.KDocker:
		return "D"
	case dag.KIndex:
		return "X"
	case dag.KDockerL:
		return "L"
	case dag.KArtifact:
		return "A"
	}
	return "O"
}

// configMT is the config media type written into an image / Docker manifest.
func configMT(g *dag.Graph, n *dag.Node) string {
	if n.Kind != dag.KImage && n.Kind != dag.KDocker {
		return ""
	}
	i := 0
	if n.Subject >= 0 {
		i = 1
	}
	if i >= len(n.Succ) {
		return ""
	}
	return g.Nodes[n.Succ[i]].Desc.MediaType
}

// effType is the property's "artifact type of that manifest": artifactType,
// else (image manifests) the config media type.  Computed from what the
// generator wrote into the manifest, not from any descriptor.
func effType(g *dag.Graph, n *dag.Node) string {
	switch n.Kind {
	case dag.KImage:
		if n.ArtifactType != "" {
			return n.ArtifactType
		}
		return configMT(g, n)
	case dag.KArtifact, dag.KIndex:
		return n.ArtifactType
	}
	return ""
}

type compiled struct {
	spec filterSpec
	re   *regexp.Regexp
}

func compileFilters(fs []filterSpec) []compiled {
	var out []compiled
	for _, f := range fs {
		c := compiled{spec: f}
		if f.Regex != nil {
			c.re = regexp.MustCompile(*f.Regex)
		}
		out = append(out, c)
	}
	return out
}

// keepTruth: does predecessor p satisfy every filter, judged on manifest content.
func keepTruth(g *dag.Graph, p *dag.Node, fs []compiled) bool {
	for _, f := range fs {
		switch f.spec.Kind {
		case "A":
			if f.re == nil {
				continue
			}
			if !f.re.MatchString(effType(g, p)) {
				return false
			}
		case "N":
			v, ok := p.Annotations[f.spec.Key]
			if !ok || !p.IsManifest() {
				return false
			}
			if f.re != nil && !f.re.MatchString(v) {
				return false
			}
		}
	}
	return true
}

// remoteTruth: the case under way reads a remote repository, whose predecessor
// relation is the referrers (subject) relation only.
var remoteTruth bool

// curGraph / curSpec: the case under way (cases run one after the other)
var curGraph *dag.Graph
var curSpec *caseSpec

func isRemote(kind string) bool { return strings.HasPrefix(kind, "remote") }

// truePreds is the source's predecessor relation by the generator's edge list.
func truePreds(g *dag.Graph, x int) []int {
	if !remoteTruth {
		if curSpec != nil && curSpec.Custom == 2 {
			// the relation the caller's FindPredecessors defines
			var out []int
			for _, p := range g.Preds(x) {
				if !customDrop(curSpec, p) {
					out = append(out, p)
				}
			}
			return out
		}
		return g.Preds(x)
	}
	var out []int
	for _, n := range g.Nodes {
		if n.Subject == x {
			out = append(out, n.ID)
		}
	}
	return out
}

func filteredPreds(g *dag.Graph, x int, fs []compiled) []int {
	var out []int
	for _, p := range truePreds(g, x) {
		if keepTruth(g, g.Nodes[p], fs) {
			out = append(out, p)
		}
	}
	return out
}

// ancestors returns minimal filtered upward distance of every node reachable from start.
func ancestors(g *dag.Graph, start int, fs []compiled) map[int]int {
	dist := map[int]int{start: 0}
	queue := []int{start}
	for len(queue) > 0 {
		x := queue[0]
		queue = queue[1:]
		for _, p := range filteredPreds(g, x, fs) {
			if _, ok := dist[p]; !ok {
				dist[p] = dist[x] + 1
				queue = append(queue, p)
			}
		}
	}
	return dist
}

// exactLevel returns the nodes that have a filtered upward path of exactly k steps from start.
func exactLevel(g *dag.Graph, start int, fs []compiled, k int) map[int]bool {
	cur := map[int]bool{start: true}
	for i := 0; i < k; i++ {
		next := map[int]bool{}
		for x := range cur {
			for _, p := range filteredPreds(g, x, fs) {
				next[p] = true
			}
		}
		cur = next
	}
	return cur
}

func unionReach(g *dag.Graph, set []int) map[int]bool {
	out := map[int]bool{}
	for _, a := range set {
		for k := range g.Reach(a) {
			out[k] = true
		}
	}
	return out
}

func sortedKeys(m map[int]bool) []int {
	var out []int
	for k := range m {
		out = append(out, k)
	}
	sort.Ints(out)
	return out
}

func idsString(ids []int) string {
	if len(ids) == 0 {
		return "-"
	}
	s := make([]string, len(ids))
	for i, v := range ids {
		s[i] = fmt.Sprint(v)
	}
	return strings.Join(s, ",")
}

// ---------------------------------------------------------------- sources

func descFor(g *dag.Graph, n *dag.Node, style int) ocispec.Descriptor {
	d := n.Desc
	if !n.IsManifest() || style == 0 {
		return d
	}
	switch style {
	case 1: // what PackManifest returns: the manifest's own fields
		d.ArtifactType = n.ArtifactType
		if n.Annotations != nil {
			d.Annotations = map[string]string{}
			for k, v := range n.Annotations {
				d.Annotations[k] = v
			}
		}
	case 2: // what a referrers listing carries: effective type, annotations never nil
		d.ArtifactType = effType(g, n)
		d.Annotations = map[string]string{}
		for k, v := range n.Annotations {
			d.Annotations[k] = v
		}
	}
	return d
}

type graphTarget interface {
	content.ReadOnlyGraphStorage
	content.Resolver
}

type built struct {
	store   graphTarget
	cleanup func()
	reg     *fakeRegistry // remote sources only
}

func startTag(i int) string { return fmt.Sprintf("t%d", i) }

// buildSource pushes every non-foreign node bottom-up and tags the start node.
func buildSource(g *dag.Graph, spec *caseSpec) (*built, error) {
	ctx := context.Background()
	type pt interface {
		content.Pusher
		content.Tagger
	}
	var st pt
	var gt graphTarget
	cleanup := func() {}
	var dir string
	switch spec.Src {
	case "remote-api", "remote-tags":
		f, ferr := newFakeRegistry(g, spec)
		if ferr != nil {
			return nil, ferr
		}
		repo, err := remote.NewRepository(f.host() + "/repo")
		if err != nil {
			f.srv.Close()
			return nil, err
		}
		repo.PlainHTTP = true
		repo.ReferrerListPageSize = spec.ClientN
		return &built{store: repo, cleanup: f.srv.Close, reg: f}, nil
	case "mem":
		m := memory.New()
		st, gt = m, m
	case "oci", "ocireopen", "ocifs":
		d, err := os.MkdirTemp("", "c03-oci-")
		if err != nil {
			return nil, err
		}
		dir = d
		cleanup = func() { os.RemoveAll(d) }
		o, err := oci.New(d)
		if err != nil {
			cleanup()
			return nil, err
		}
		st, gt = o, o
	case "file":
		d, err := os.MkdirTemp("", "c03-file-")
		if err != nil {
			return nil, err
		}
		f, err := file.New(d)
		if err != nil {
			os.RemoveAll(d)
			return nil, err
		}
		cleanup = func() { f.Close(); os.RemoveAll(d) }
		st, gt = f, f
	default:
		return nil, fmt.Errorf("unknown source kind %q", spec.Src)
	}
	for _, n := range g.Nodes {
		if n.Foreign() {
			continue
		}
		d := descFor(g, n, spec.Style[n.ID])
		if spec.Src == "file" && !n.IsManifest() && n.ID%2 == 0 {
			d.Annotations = map[string]string{ocispec.AnnotationTitle: fmt.Sprintf("blob-%d.bin", n.ID)}
		}
		if err := st.Push(ctx, d, bytes.NewReader(n.Bytes)); err != nil {
			cleanup()
			return nil, fmt.Errorf("push node %d: %w", n.ID, err)
		}
	}
	sd := descFor(g, g.Nodes[spec.Start], spec.Style[spec.Start])
	if err := st.Tag(ctx, sd, startTag(spec.Start)); err != nil {
		cleanup()
		return nil, fmt.Errorf("tag start %d: %w", spec.Start, err)
	}
	if spec.Src == "ocifs" {
		// the read-only store (its own loadIndex) over the layout just written
		ro, err := oci.NewFromFS(ctx, os.DirFS(dir))
		if err != nil {
			cleanup()
			return nil, fmt.Errorf("NewFromFS: %w", err)
		}
		gt = ro
	}
	if spec.Src == "ocireopen" {
		o, err := oci.New(dir)
		if err != nil {
			cleanup()
			return nil, fmt.Errorf("reopen: %w", err)
		}
		gt = o
	}
	return &built{store: gt, cleanup: cleanup}, nil
}

// recSrc serves the store's Predecessors in a reproducible order (the store's
// own order is Go map order): sorted by node id, then permuted by a PRNG keyed
// by (PermSeed, node).  Descriptors are passed through exactly as the store
// returned them.  It deliberately implements only ReadOnlyGraphStorage.
type recSrc struct {
	inner content.ReadOnlyGraphStorage
	g     *dag.Graph
	seed  uint64
	byKey map[string]int
	bad   string
	// keepOrder: the source's own order is already reproducible (fake registry)
	keepOrder bool
}

// recLister keeps the registry.ReferrerLister capability of a remote repository.
type recLister struct{ *recSrc }

func (r recLister) Referrers(ctx context.Context, d ocispec.Descriptor, artifactType string, fn func([]ocispec.Descriptor) error) error {
	return r.inner.(registry.ReferrerLister).Referrers(ctx, d, artifactType, fn)
}

func keyOf(d ocispec.Descriptor) string {
	return d.MediaType + "|" + d.Digest.String() + "|" + fmt.Sprint(d.Size)
}

// id maps a descriptor to its node; an unknown descriptor is remembered in r.bad (and mapped to -1)
func (r *recSrc) id(d ocispec.Descriptor) int {
	if i, ok := r.byKey[keyOf(d)]; ok {
		return i
	}
	if r.bad == "" {
		r.bad = "descriptor of no generated node: " + keyOf(d)
	}
	return -1
}

func newRec(inner content.ReadOnlyGraphStorage, g *dag.Graph, seed uint64) *recSrc {
	r := &recSrc{inner: inner, g: g, seed: seed, byKey: map[string]int{}}
	for _, n := range g.Nodes {
		r.byKey[keyOf(n.Desc)] = n.ID
	}
	return r
}

func (r *recSrc) Fetch(ctx context.Context, d ocispec.Descriptor) (io.ReadCloser, error) {
	return r.inner.Fetch(ctx, d)
}
func (r *recSrc) Exists(ctx context.Context, d ocispec.Descriptor) (bool, error) {
	return r.inner.Exists(ctx, d)
}
func (r *recSrc) Predecessors(ctx context.Context, d ocispec.Descriptor) ([]ocispec.Descriptor, error) {
	ps, err := r.inner.Predecessors(ctx, d)
	if err != nil {
		return nil, err
	}
	x, ok := r.byKey[keyOf(d)]
	if !ok {
		r.bad = "Predecessors asked for an unknown descriptor " + keyOf(d)
		return ps, nil
	}
	for _, p := range ps {
		if _, ok := r.byKey[keyOf(p)]; !ok {
			r.bad = "store returned an unknown predecessor " + keyOf(p)
			return ps, nil
		}
	}
	if r.keepOrder {
		return ps, nil
	}
	sort.SliceStable(ps, func(i, j int) bool { return r.byKey[keyOf(ps[i])] < r.byKey[keyOf(ps[j])] })
	pr := common.NewRand(r.seed*1000003 + uint64(x) + 17)
	common.Shuffle(pr, ps)
	return ps, nil
}

// ---------------------------------------------------------------- model input

func annTok(m map[string]string) string {
	if m == nil {
		return "~"
	}
	if len(m) == 0 {
		return "@"
	}
	keys := make([]string, 0, len(m))
	for k := range m {
		keys = append(keys, k)
	}
	sort.Strings(keys)
	parts := make([]string, len(keys))
	for i, k := range keys {
		parts[i] = common.Hex(k) + "=" + common.Hex(m[k])
	}
	return strings.Join(parts, ";")
}

func tableTok(re *regexp.Regexp, pool []string) string {
	seen := map[string]bool{}
	var parts []string
	for _, s := range pool {
		if seen[s] {
			continue
		}
		seen[s] = true
		b := "0"
		if re.MatchString(s) {
			b = "1"
		}
		parts = append(parts, common.Hex(s)+"="+b)
	}
	if len(parts) == 0 {
		return "_"
	}
	return strings.Join(parts, ",")
}

func filtersTok(g *dag.Graph, fs []compiled, served map[int][]ocispec.Descriptor) string {
	var atPool, annPool []string
	atPool = append(atPool, "")
	annPool = append(annPool, "") // value of a missing key (the model evaluates the match eagerly)
	for _, n := range g.Nodes {
		atPool = append(atPool, n.ArtifactType, configMT(g, n), effType(g, n))
		for _, v := range n.Annotations {
			annPool = append(annPool, v)
		}
	}
	for _, ps := range served {
		for _, p := range ps {
			atPool = append(atPool, p.ArtifactType)
			for _, v := range p.Annotations {
				annPool = append(annPool, v)
			}
		}
	}
	sort.Strings(atPool)
	sort.Strings(annPool)
	parts := []string{fmt.Sprint(len(fs))}
	for _, f := range fs {
		switch {
		case f.spec.Kind == "A" && f.re == nil:
			parts = append(parts, "A0")
		case f.spec.Kind == "A":
			parts = append(parts, "A", tableTok(f.re, atPool))
		case f.re == nil:
			parts = append(parts, "N0", common.Hex(f.spec.Key))
		default:
			parts = append(parts, "N", common.Hex(f.spec.Key), tableTok(f.re, annPool))
		}
	}
	return strings.Join(parts, " ")
}

func nodesTok(g *dag.Graph, served map[int][]ocispec.Descriptor, rec *recSrc) string {
	var parts []string
	for _, n := range g.Nodes {
		parts = append(parts, kindLetter(n.Kind), common.Hex(n.ArtifactType), common.Hex(configMT(g, n)), annTok(n.Annotations))
		ps := served[n.ID]
		parts = append(parts, fmt.Sprint(len(ps)))
		for _, p := range ps {
			parts = append(parts, fmt.Sprint(rec.byKey[keyOf(p)]), common.Hex(p.ArtifactType), annTok(p.Annotations))
		}
	}
	return strings.Join(parts, " ")
}

// ---------------------------------------------------------------- options

// customDrop: the caller's FindPredecessors of variant 2 leaves this predecessor out
func customDrop(spec *caseSpec, p int) bool {
	return spec.Custom == 2 && (uint64(p)+spec.PermSeed)%3 == 0
}

// customFP is a caller-supplied FindPredecessors: the store's predecessors, some dropped,
// reversed, stripped to plain descriptors (variant 1) -- a function of the store's answer only.
func customFP(spec *caseSpec, g *dag.Graph) func(context.Context, content.ReadOnlyGraphStorage, ocispec.Descriptor) ([]ocispec.Descriptor, error) {
	byKey := map[string]int{}
	for _, n := range g.Nodes {
		byKey[keyOf(n.Desc)] = n.ID
	}
	return func(ctx context.Context, src content.ReadOnlyGraphStorage, d ocispec.Descriptor) ([]ocispec.Descriptor, error) {
		ps, err := src.Predecessors(ctx, d)
		if err != nil {
			return nil, err
		}
		var out []ocispec.Descriptor
		for i := len(ps) - 1; i >= 0; i-- {
			p := ps[i]
			if id, ok := byKey[keyOf(p)]; ok && customDrop(spec, id) {
				continue
			}
			if spec.Custom == 1 {
				p = ocispec.Descriptor{MediaType: p.MediaType, Digest: p.Digest, Size: p.Size}
			}
			out = append(out, p)
		}
		return out, nil
	}
}

func buildOpts(spec *caseSpec, fs []compiled) oras.ExtendedCopyGraphOptions {
	opts := oras.ExtendedCopyGraphOptions{Depth: spec.Limit}
	opts.Concurrency = spec.Conc
	if spec.Custom > 0 && curGraph != nil {
		opts.FindPredecessors = customFP(spec, curGraph)
	}
	for _, f := range fs {
		if f.spec.Kind == "A" {
			opts.FilterArtifactType(f.re)
		} else {
			opts.FilterAnnotation(f.spec.Key, f.re)
		}
	}
	return opts
}

func newDst(kind string) (oras.Target, func(), error) {
	if kind == "oci" {
		d, err := os.MkdirTemp("", "c03-dst-")
		if err != nil {
			return nil, nil, err
		}
		o, err := oci.New(d)
		if err != nil {
			os.RemoveAll(d)
			return nil, nil, err
		}
		return o, func() { os.RemoveAll(d) }, nil
	}
	if kind == "file" {
		d, err := os.MkdirTemp("", "c03-dstf-")
		if err != nil {
			return nil, nil, err
		}
		f, err := file.New(d)
		if err != nil {
			os.RemoveAll(d)
			return nil, nil, err
		}
		return f, func() { f.Close(); os.RemoveAll(d) }, nil
	}
	return memory.New(), func() {}, nil
}

// ---------------------------------------------------------------- one case

// replayTok: '#' + base64(zlib(JSON of the case)); ignored by the model runner,
// decoded by case_to_replay in bin/props.d/C03.py.
func replayTok(spec *caseSpec) string {
	js, _ := json.Marshal(spec)
	return rawReplayTok(js)
}

func rawReplayTok(js []byte) string {
	var buf bytes.Buffer
	zw := zlib.NewWriter(&buf)
	zw.Write(js)
	zw.Close()
	return "#" + base64.StdEncoding.EncodeToString(buf.Bytes())
}

func runCase(spec *caseSpec) {
	ctx := context.Background()
	g := dag.Decode(spec.Graph)
	if spec.Start < 0 || spec.Start >= len(g.Nodes) || g.Nodes[spec.Start].Foreign() || len(spec.Style) != len(g.Nodes) {
		return
	}
	fs := compileFilters(spec.Filters)
	id := run.NewID()
	// a registry that omits artifactType / annotations in its referrers listing is outside the
	// property (the first filter on a ReferrerLister judges the served fields): with filters such a
	// case is run for the correspondence only
	notJudged := spec.Incomplete && isRemote(spec.Src) && len(fs) > 0
	fail := func(sig, msg string) {
		if notJudged && sig != "unexpected-error" && sig != "copy-hang" && sig != "predecessors-missing" && sig != "predecessor-unknown" {
			run.Count("not-judged:" + sig)
			return
		}
		run.OracleFail(id, sig, msg, spec)
	}
	if notJudged {
		run.Count("not-judged-cases")
	}
	run.Count("src=" + spec.Src)
	run.Count(fmt.Sprintf("filters=%d", len(fs)))
	switch {
	case spec.Limit <= 0:
		run.Count("depth=unlimited")
	default:
		run.Count(fmt.Sprintf("depth=%d", spec.Limit))
	}
	run.Count("start=" + g.Nodes[spec.Start].Kind)

	b, err := buildSource(g, spec)
	if err != nil {
		// the generator's own source could not be built: nothing observed about C03
		run.Count("source-build-failed")
		fmt.Fprintln(os.Stderr, "source build failed:", err)
		return
	}
	defer b.cleanup()
	remoteTruth = isRemote(spec.Src)
	defer func() { remoteTruth = false }()
	reg := b.reg
	rec := newRec(b.store, g, spec.PermSeed)
	rec.keepOrder = remoteTruth
	var hookSrc content.ReadOnlyGraphStorage = rec
	lister := "0"
	if remoteTruth {
		hookSrc = recLister{rec}
		lister = "1"
	}

	// what the source serves for every node (descriptor fields and order)
	served := map[int][]ocispec.Descriptor{}
	for _, n := range g.Nodes {
		if n.Foreign() {
			continue
		}
		ps, err := rec.Predecessors(ctx, n.Desc)
		if err != nil {
			fail("unexpected-error", fmt.Sprintf("Predecessors(%d): %v", n.ID, err))
			return
		}
		served[n.ID] = ps
		// a reloaded layout (oci.New on an existing directory, the read-only store) indexes every
		// node by its plain descriptor: nothing of the pushing descriptor or of a referencing entry
		if spec.Src == "ocireopen" || spec.Src == "ocifs" {
			for _, p := range ps {
				if p.ArtifactType != "" || p.Annotations != nil {
					fail("reload-not-plain", fmt.Sprintf("source %s: predecessor %d of %d is served with artifactType %q / annotations %v",
						spec.Src, rec.id(p), n.ID, p.ArtifactType, p.Annotations))
					break
				}
			}
		}
		// the source's predecessor relation is the generator's inverse edge list
		var got []int
		for _, p := range ps {
			got = append(got, rec.byKey[keyOf(p)])
		}
		sort.Ints(got)
		if rec.bad == "" && idsString(got) != idsString(truePreds(g, n.ID)) {
			// What the source serves is not the generator's inverse edge list.  The case goes
			// on (the model gets the served table; the oracle keeps the generator's truth), and
			// a predecessor that is not served is reported directly: ExtendedCopy from this
			// node cannot reach its graph.
			run.Count("source-preds-differ")
			have := map[int]bool{}
			for _, p := range got {
				have[p] = true
			}
			for _, p := range truePreds(g, n.ID) {
				if !have[p] {
					s2 := *spec
					s2.Start = n.ID
					s2.Limit = 0
					s2.Filters = nil
					fail2 := fmt.Sprintf("source %s (clientN %d, cap %d): Predecessors(%d) = %v, the nodes that link to it are %v",
						spec.Src, spec.ClientN, spec.Page, n.ID, got, truePreds(g, n.ID))
					run.OracleFail(id, "predecessors-missing", fail2, &s2)
					break
				}
			}
		}
	}
	if spec.Custom > 0 && !remoteTruth {
		// from here on the followed relation is the one the caller's FindPredecessors defines:
		// the model is given ITS output as the table (lister token "c": every filter takes the
		// generic branch), the oracle applies the same drop rule to the generator's edge list
		curGraph, curSpec = g, spec
		defer func() { curGraph, curSpec = nil, nil }()
		cf := customFP(spec, g)
		for _, n := range g.Nodes {
			if n.Foreign() {
				continue
			}
			ps, err := cf(ctx, rec, n.Desc)
			if err != nil {
				fail("unexpected-error", fmt.Sprintf("custom FindPredecessors(%d): %v", n.ID, err))
				return
			}
			served[n.ID] = ps
		}
		lister = "c"
		run.Count(fmt.Sprintf("custom-find-predecessors=%d", spec.Custom))
	}
	if rec.bad != "" {
		// the source serves (or is asked for) something that is no node of the graph: a wrong
		// predecessor descriptor would be walked / copied by ExtendedCopy
		fail("predecessor-unknown", fmt.Sprintf("source %s: %s", spec.Src, rec.bad))
		return
	}

	startDesc := descFor(g, g.Nodes[spec.Start], spec.StartStyle)
	ftok := filtersTok(g, fs, served)
	ntok := nodesTok(g, served, rec)
	rtok := replayTok(spec)

	// ---- ground truth
	dist := ancestors(g, spec.Start, fs)
	var ancAll, ancWithin []int
	for a, d := range dist {
		ancAll = append(ancAll, a)
		if spec.Limit <= 0 || d <= spec.Limit {
			ancWithin = append(ancWithin, a)
		}
	}
	sort.Ints(ancAll)
	sort.Ints(ancWithin)
	within := map[int]bool{}
	for _, a := range ancWithin {
		within[a] = true
	}

	// ---- findRoots through the hook
	opts := buildOpts(spec, fs)
	// (operations are counted: the fault stream below aims at the root-finding phase)
	counter := &faultSrc{ReadOnlyGraphStorage: hookSrc}
	var countedSrc content.ReadOnlyGraphStorage = counter
	if remoteTruth {
		countedSrc = faultLister{counter}
	}
	var roots []ocispec.Descriptor
	if !bounded(func() { roots, err = oras.VerifFindRoots(ctx, countedSrc, startDesc, opts) }) {
		hangs++
		fail("findroots-hang", fmt.Sprintf("findRoots did not return within %v", watchdog+watchdogConfirm))
		return
	}
	obs := "ERR"
	var rootIDs []int
	if err == nil {
		seen := map[int]bool{}
		for _, r := range roots {
			seen[rec.id(r)] = true
		}
		rootIDs = sortedKeys(seen)
		// ... and the sequence of nodes whose predecessors findRoots asked the source for
		var calls []int
		for _, d := range counter.listed {
			calls = append(calls, rec.id(d))
		}
		obs = "OK " + idsString(rootIDs) + " " + idsString(calls)
	}
	line := fmt.Sprintf("FR %d %d %d %s %s %s %s", len(g.Nodes), spec.Limit, spec.Start, lister, ftok, ntok, rtok)
	run.Case(id, line, obs)
	if len(fs) > 0 || spec.Limit > 0 || idsString(rootIDs) != fmt.Sprint(spec.Start) {
		run.Nontrivial(fmt.Sprintf("FR %d %d %s %s %s", spec.Limit, spec.Start, lister, ftok, ntok))
	}
	if err != nil {
		fail("unexpected-error", fmt.Sprintf("findRoots failed on a complete source: %v", err))
	} else if spec.Limit <= 0 {
		var want []int
		for _, a := range ancAll {
			if len(filteredPreds(g, a, fs)) == 0 {
				want = append(want, a)
			}
		}
		if idsString(want) != idsString(rootIDs) {
			sig := "roots-unlimited"
			if len(fs) > 0 {
				sig = "roots-filtered"
			}
			fail(sig, fmt.Sprintf("roots %v, the upward closure %v has the tops %v", rootIDs, ancAll, want))
		}
	} else {
		exact := exactLevel(g, spec.Start, fs, spec.Limit)
		if len(rootIDs) == 0 {
			fail("depth-no-root", "no root returned")
		}
		// every followed direct predecessor of the given node lies under a root (C03_direct_predecessors_covered)
		for _, p := range filteredPreds(g, spec.Start, fs) {
			up := ancestors(g, p, fs)
			covered := false
			for _, r := range rootIDs {
				if _, ok := up[r]; ok {
					covered = true
				}
			}
			if !covered {
				fail("depth-direct-pred-uncovered", fmt.Sprintf("direct predecessor %d of the given node %d is under none of the roots %v (Depth %d)", p, spec.Start, rootIDs, spec.Limit))
				break
			}
		}
		for _, r := range rootIDs {
			if !within[r] {
				fail("depth-root-too-far", fmt.Sprintf("root %d is not an ancestor within %d steps (%v)", r, spec.Limit, ancWithin))
				break
			}
			if len(filteredPreds(g, r, fs)) != 0 && !exact[r] {
				fail("depth-root-not-top", fmt.Sprintf("root %d has followed predecessors and no path of length %d", r, spec.Limit))
				break
			}
		}
	}

	// ---- findRoots with the k-th source operation failing (hook), against the model's find_roots_e:
	// the error must surface at exactly that operation, a success must be the fault-free root set
	if spec.Fault > 0 && err == nil {
		kk := 1 + spec.Fault%(counter.ops+2) // counter.ops+1 and beyond: never reached
		fsrc := &faultSrc{ReadOnlyGraphStorage: hookSrc, countdown: kk}
		var src content.ReadOnlyGraphStorage = fsrc
		if remoteTruth {
			src = faultLister{fsrc}
		}
		eid := run.NewID()
		var froots []ocispec.Descriptor
		var ferr error
		if !bounded(func() { froots, ferr = oras.VerifFindRoots(ctx, src, startDesc, buildOpts(spec, fs)) }) {
			hangs++
			run.OracleFail(eid, "findroots-hang", fmt.Sprintf("findRoots with a failing operation did not return within %v", watchdog+watchdogConfirm), spec)
			return
		}
		eobs := "ERR"
		if ferr == nil {
			seen := map[int]bool{}
			for _, r := range froots {
				seen[rec.id(r)] = true
			}
			eobs = "OK " + idsString(sortedKeys(seen))
		}
		run.Case(eid, fmt.Sprintf("FE %d %d %d %s %d %s %s %s", len(g.Nodes), spec.Limit, spec.Start, lister, kk, ftok, ntok, rtok), eobs)
		run.Count("findRoots-fault")
		switch {
		case ferr != nil && !fsrc.hit:
			run.OracleFail(eid, "spurious-error", fmt.Sprintf("findRoots failed although the armed fault (operation %d of %d) was not reached: %v", kk, counter.ops, ferr), spec)
		case ferr == nil && fsrc.hit:
			run.OracleFail(eid, "error-swallowed", fmt.Sprintf("operation %d of %d of findRoots failed, findRoots returned success with roots %s", kk, counter.ops, eobs), spec)
		case ferr == nil && eobs != "OK "+idsString(rootIDs):
			run.OracleFail(eid, "error-swallowed", fmt.Sprintf("with an armed (unreached) fault findRoots returned %s, without %s", eobs, "OK "+idsString(rootIDs)), spec)
		case ferr != nil:
			run.Count("findRoots-fault=error")
		}
	}

	// ---- opts.FindPredecessors on every node: filter exactness
	if opts.FindPredecessors != nil {
		for _, n := range g.Nodes {
			if n.Foreign() {
				continue
			}
			if !run.Thorough() && n.ID != spec.Start && len(truePreds(g, n.ID)) == 0 {
				continue
			}
			fid := run.NewID()
			out, err := opts.FindPredecessors(ctx, hookSrc, n.Desc)
			o := "ERR"
			var got []int
			if err == nil {
				var sb strings.Builder
				sb.WriteString("P")
				for _, p := range out {
					pid := rec.id(p)
					got = append(got, pid)
					fmt.Fprintf(&sb, " %d:%s:%s", pid, common.Hex(p.ArtifactType), annTok(p.Annotations))
				}
				o = sb.String()
			}
			run.Case(fid, fmt.Sprintf("FP %d %d %s %s %s %s", len(g.Nodes), n.ID, lister, ftok, ntok, rtok), o)
			if err != nil {
				run.OracleFail(fid, "unexpected-error", fmt.Sprintf("FindPredecessors(%d): %v", n.ID, err), spec)
				continue
			}
			sort.Ints(got)
			want := filteredPreds(g, n.ID, fs)
			if idsString(got) != idsString(want) {
				if notJudged {
					run.Count("not-judged:filter-exact")
					continue
				}
				run.OracleFail(fid, "filter-exact", fmt.Sprintf("node %d: followed predecessors %v, those whose manifest satisfies the filter are %v (source %s)",
					n.ID, got, want, spec.Src), spec)
			}
		}
	}

	// ---- a remote source asked for one artifact type (what a ReferrerLister offers): the
	// registry may or may not filter itself; either way exactly the referrers of that type come back
	if remoteTruth && !spec.Incomplete {
		if rl, ok := b.store.(registry.ReferrerLister); ok {
			for _, n := range g.Nodes {
				tp := truePreds(g, n.ID)
				if n.Foreign() || len(tp) == 0 {
					continue
				}
				types := []string{effType(g, g.Nodes[tp[0]]), "sbom", "application/vnd.verif.sbom"}
				for _, at := range types {
					if at == "" {
						continue
					}
					var got []int
					err := rl.Referrers(ctx, n.Desc, at, func(rs []ocispec.Descriptor) error {
						for _, d := range rs {
							got = append(got, rec.id(d))
						}
						return nil
					})
					var want []int
					for _, p := range tp {
						if effType(g, g.Nodes[p]) == at {
							want = append(want, p)
						}
					}
					sort.Ints(got)
					run.Count("referrers-by-type")
					if err != nil {
						fail("unexpected-error", fmt.Sprintf("Referrers(%d, %q): %v", n.ID, at, err))
					} else if idsString(got) != idsString(want) {
						fail("referrers-by-type", fmt.Sprintf("source %s (server filters: %v, clientN %d, cap %d): Referrers(%d, %q) = %v, referrers of that artifact type are %v",
							spec.Src, spec.ServerFilter, spec.ClientN, spec.Page, n.ID, at, got, want))
					}
				}
				break // one subject per case
			}
		}
	}

	// ---- ExtendedCopyGraph
	lower := g.Reach(spec.Start)
	for _, p := range filteredPreds(g, spec.Start, fs) {
		// (any Depth >= 1) the graphs of the followed direct predecessors arrive too
		for k := range g.Reach(p) {
			lower[k] = true
		}
	}
	upper := unionReach(g, ancWithin)
	// initial: what the destination held before the copy (link-closed subset)
	initial := map[int]bool{}
	if spec.Prefill > 0 {
		initial = g.RandomClosedSubset(common.NewRand(spec.PermSeed+99), spec.Prefill)
		if len(initial) > 0 {
			run.Count("dst=prefilled")
		}
	}
	mkDst := func() (oras.Target, func(), error) {
		dst, clean, err := newDst(spec.Dst)
		if err != nil {
			return nil, nil, err
		}
		for _, n := range g.Nodes { // bottom-up
			if initial[n.ID] {
				if err := dst.Push(ctx, n.Desc, bytes.NewReader(n.Bytes)); err != nil {
					clean()
					return nil, nil, err
				}
			}
		}
		return dst, clean, nil
	}
	checkDst := func(what string, dst content.ReadOnlyStorage) {
		for _, n := range g.Nodes {
			if n.Foreign() {
				continue
			}
			ok, err := dst.Exists(ctx, n.Desc)
			if err != nil {
				fail("unexpected-error", fmt.Sprintf("%s: Exists(%d): %v", what, n.ID, err))
				return
			}
			if ok {
				rc, err := dst.Fetch(ctx, n.Desc)
				if err != nil {
					fail("dst-unreadable", fmt.Sprintf("%s: node %d exists but Fetch fails: %v", what, n.ID, err))
					return
				}
				data, _ := io.ReadAll(rc)
				rc.Close()
				if !bytes.Equal(data, n.Bytes) {
					fail("dst-bytes-differ", fmt.Sprintf("%s: node %d differs from the source bytes", what, n.ID))
					return
				}
			}
			if spec.Limit <= 0 {
				if upper[n.ID] && !ok {
					sig := "closure-missing"
					if len(fs) > 0 {
						sig = "filtered-closure-missing"
					}
					fail(sig, fmt.Sprintf("%s: node %d is under ancestor set %v of %d but missing in the destination", what, n.ID, ancAll, spec.Start))
					return
				}
			} else if lower[n.ID] && !ok {
				fail("depth-own-graph-missing", fmt.Sprintf("%s: node %d of the given node's own graph is missing", what, n.ID))
				return
			}
			if ok && !upper[n.ID] && !initial[n.ID] {
				sig := "copied-outside"
				if spec.Limit > 0 {
					sig = "depth-copied-outside"
				}
				fail(sig, fmt.Sprintf("%s: node %d copied although outside the graphs of the ancestors %v", what, n.ID, ancWithin))
				return
			}
		}
	}
	copyGraph := func(what string, src content.ReadOnlyGraphStorage, mayFail bool) {
		var dst oras.Target
		var clean func()
		err, hung := guarded(func(wctx context.Context) error {
			if clean != nil {
				clean()
			}
			var derr error
			dst, clean, derr = mkDst()
			if derr != nil {
				clean = nil
				return derr
			}
			return oras.ExtendedCopyGraph(wctx, src, dst, startDesc, buildOpts(spec, fs))
		})
		if abandoned {
			hangs++
			fail("copy-hang", fmt.Sprintf("%s did not return, not even after its context was cancelled (Concurrency %d)", what, spec.Conc))
			return
		}
		if clean == nil {
			run.Count("destination-build-failed")
			fmt.Fprintln(os.Stderr, "destination build failed:", err)
			return
		}
		defer clean()
		switch {
		case hung:
			hangs++
			fail("copy-hang", fmt.Sprintf("%s did not return within %v, nor within %v on a second run (Concurrency %d): %v", what, watchdog, watchdogConfirm, spec.Conc, err))
		case err != nil && mayFail:
			run.Count("fault=error-surfaced")
		case err != nil:
			fail("unexpected-error", fmt.Sprintf("%s failed on a complete source: %v", what, err))
		default:
			checkDst(what, dst)
		}
	}
	{
		var src content.ReadOnlyGraphStorage = hookSrc
		if spec.Raw {
			src = b.store
		}
		copyGraph("ExtendedCopyGraph", src, false)
	}
	// ---- the same with one failing source operation: an error may surface; success still means the full closure
	if spec.Fault > 0 && hangs == 0 {
		// two thirds of the faults fall into findRoots (counter.ops operations), the rest into the copy phase
		k := spec.Fault
		if counter.ops > 0 && spec.Fault%3 != 0 {
			k = 1 + spec.Fault%counter.ops
		} else {
			k = counter.ops + spec.Fault
		}
		fsrc := &faultSrc{ReadOnlyGraphStorage: hookSrc, countdown: k}
		var src content.ReadOnlyGraphStorage = fsrc
		if remoteTruth {
			src = faultLister{fsrc}
			if reg != nil && spec.Fault%2 == 0 {
				// alternatively the registry itself answers a request with an error (also between two pages)
				fsrc.countdown = 0
				reg.arm(1 + spec.Fault%(counter.ops+2))
			}
		}
		copyGraph("ExtendedCopyGraph with a failing source operation", src, true)
		if fsrc.hit || (reg != nil && reg.fired()) {
			run.Count("fault=hit")
		} else {
			run.Count("fault=not-reached")
		}
		if reg != nil {
			reg.arm(0)
		}
	}
	if rec.bad != "" {
		fail("predecessor-unknown", fmt.Sprintf("source %s during the copy: %s", spec.Src, rec.bad))
	}
	// ---- ExtendedCopy (resolve, copy, tag); a registry tags manifests only
	if hangs == 0 && (!remoteTruth || g.Nodes[spec.Start].IsManifest()) {
		var dst oras.Target
		var clean func()
		var desc ocispec.Descriptor
		err, hung := guarded(func(wctx context.Context) error {
			if clean != nil {
				clean()
			}
			var derr error
			dst, clean, derr = mkDst()
			if derr != nil {
				clean = nil
				return derr
			}
			eopts := oras.ExtendedCopyOptions{ExtendedCopyGraphOptions: buildOpts(spec, fs)}
			var cerr error
			desc, cerr = oras.ExtendedCopy(wctx, b.store, startTag(spec.Start), dst, spec.DstRef, eopts)
			return cerr
		})
		if abandoned {
			hangs++
			fail("copy-hang", fmt.Sprintf("ExtendedCopy did not return, not even after its context was cancelled (Concurrency %d)", spec.Conc))
		} else if clean == nil {
			run.Count("destination-build-failed")
		} else {
			if hung {
				hangs++
				fail("copy-hang", fmt.Sprintf("ExtendedCopy did not return within %v, nor within %v on a second run (Concurrency %d): %v", watchdog, watchdogConfirm, spec.Conc, err))
			} else if err != nil {
				fail("unexpected-error", fmt.Sprintf("ExtendedCopy failed on a complete source: %v", err))
			} else {
				checkDst("ExtendedCopy", dst)
				want := spec.DstRef
				if want == "" {
					want = startTag(spec.Start)
				}
				got, err := dst.Resolve(ctx, want)
				if err != nil {
					fail("not-tagged", fmt.Sprintf("ExtendedCopy succeeded but %q does not resolve in the destination: %v", want, err))
				} else if got.Digest != startDesc.Digest || got.Size != startDesc.Size {
					fail("tag-wrong-node", fmt.Sprintf("%q resolves to %s, the given node is %s", want, got.Digest, startDesc.Digest))
				}
				if desc.Digest != startDesc.Digest {
					fail("tag-wrong-node", fmt.Sprintf("ExtendedCopy returned %s, the given node is %s", desc.Digest, startDesc.Digest))
				}
			}
			clean()
		}
	}
	run.TracesAgainstImpl++
	if len(run.Samples) < 5 && (len(fs) > 0 || spec.Limit > 0) && len(ancAll) > 2 {
		run.Sample(map[string]any{"graph": g.Describe(), "src": spec.Src, "start": spec.Start, "depth": spec.Limit,
			"filters": spec.Filters, "roots": rootIDs, "ancestors": ancAll})
	}
}

// fetchArtifactType on every manifest of a graph (hook), against the model's function.
func artifactTypeCases(g *dag.Graph) {
	ctx := context.Background()
	st := memory.New()
	for _, n := range g.Nodes {
		if n.Foreign() {
			continue
		}
		if err := st.Push(ctx, n.Desc, bytes.NewReader(n.Bytes)); err != nil {
			return
		}
	}
	for _, n := range g.Nodes {
		if !n.IsManifest() {
			continue
		}
		id := run.NewID()
		at, err := oras.VerifFetchArtifactType(ctx, st, n.Desc)
		obs := "ERR"
		if err == nil {
			obs = "T " + common.Hex(at)
		}
		run.Case(id, fmt.Sprintf("AT %s %s %s", kindLetter(n.Kind), common.Hex(n.ArtifactType), common.Hex(configMT(g, n))), obs)
		run.Count("fetchArtifactType=" + n.Kind)
		if err == nil && at != effType(g, n) {
			run.OracleFail(id, "artifact-type", fmt.Sprintf("fetchArtifactType of a %s manifest with artifactType %q, config %q gives %q",
				n.Kind, n.ArtifactType, configMT(g, n), at),
				map[string]any{"graph": g.Encode(), "atnode": n.ID})
		}
	}
}

// ---------------------------------------------------------------- ExtendedCopy wrapper cases

type failingTagger struct {
	*memory.Store
	failPush, failTag bool
}

var errInjected = errors.New("injected")

func (f *failingTagger) Push(ctx context.Context, d ocispec.Descriptor, r io.Reader) error {
	if f.failPush {
		return errInjected
	}
	return f.Store.Push(ctx, d, r)
}
func (f *failingTagger) Tag(ctx context.Context, d ocispec.Descriptor, ref string) error {
	if f.failTag {
		return errInjected
	}
	return f.Store.Tag(ctx, d, ref)
}

// failingPreds: a memory source whose Predecessors fails (findRoots' error path)
type failingPreds struct{ *memory.Store }

func (f failingPreds) Predecessors(context.Context, ocispec.Descriptor) ([]ocispec.Descriptor, error) {
	return nil, errInjected
}

func wrapperCase(resolves, rootsOK, graphOK, tagOK bool, srcRef, dstRef string) {
	ctx := context.Background()
	id := run.NewID()
	src := memory.New()
	data := []byte("c03 wrapper blob")
	d := ocispec.Descriptor{MediaType: "application/octet-stream", Digest: digest.FromBytes(data), Size: int64(len(data))}
	src.Push(ctx, d, bytes.NewReader(data))
	if resolves {
		src.Tag(ctx, d, srcRef)
	}
	dst := &failingTagger{Store: memory.New(), failPush: !graphOK, failTag: !tagOK}
	var gsrc oras.ReadOnlyGraphTarget = src
	if !rootsOK {
		gsrc = failingPreds{src}
	}
	_, err := oras.ExtendedCopy(ctx, gsrc, srcRef, dst, dstRef, oras.DefaultExtendedCopyOptions)
	obs := "ERR copy"
	var ce *oras.CopyError
	if errors.As(err, &ce) {
		switch {
		case ce.Op == "Resolve" || ce.Op == "Tag" || ce.Op == "FindPredecessors":
			obs = "ERR " + ce.Op + "/" + ce.Origin.String()
		}
	}
	if err != nil {
		// the first failing step, by the generator's own knowledge of what was made to fail
		want := "ERR copy"
		switch {
		case !resolves:
			want = "ERR Resolve/source"
		case !rootsOK:
			want = "ERR FindPredecessors/source"
		case !graphOK:
			want = "ERR copy"
		case !tagOK:
			want = "ERR Tag/destination"
		}
		if obs != want {
			run.OracleFail(id, "error-origin", fmt.Sprintf("ExtendedCopy(resolves %v, roots %v, copy %v, tag %v) failed with %q (%v), the first failing step is %q", resolves, rootsOK, graphOK, tagOK, obs, err, want),
				map[string]any{"wrapper": []any{resolves, rootsOK, graphOK, tagOK, srcRef, dstRef}})
		}
	} else if !(resolves && rootsOK && graphOK && tagOK) {
		run.OracleFail(id, "error-swallowed", fmt.Sprintf("ExtendedCopy(resolves %v, roots %v, copy %v, tag %v) succeeded", resolves, rootsOK, graphOK, tagOK),
			map[string]any{"wrapper": []any{resolves, rootsOK, graphOK, tagOK, srcRef, dstRef}})
	}
	bit := func(b bool) string {
		if b {
			return "1"
		}
		return "0"
	}
	if err == nil {
		want := dstRef
		if want == "" {
			want = srcRef
		}
		got, rerr := dst.Resolve(ctx, want)
		if rerr != nil || got.Digest != d.Digest {
			run.OracleFail(id, "not-tagged", fmt.Sprintf("ExtendedCopy(%q -> %q) succeeded but %q does not resolve to the given node", srcRef, dstRef, want),
				map[string]any{"wrapper": []any{resolves, rootsOK, graphOK, tagOK, srcRef, dstRef}})
		}
		// observed from the destination: every candidate reference and what it resolves to
		// (7 = the given node, as in the model's tag list)
		var seen []string
		for _, ref := range []string{srcRef, dstRef, "v1", "other"} {
			if ref == "" || strings.Contains(strings.Join(seen, ","), common.Hex(ref)+"=") {
				continue
			}
			if g2, e2 := dst.Resolve(ctx, ref); e2 == nil {
				v := "X"
				if g2.Digest == d.Digest {
					v = "7"
				}
				seen = append(seen, common.Hex(ref)+"="+v)
			}
		}
		obs = "OK " + strings.Join(seen, ",")
	}
	run.Case(id, fmt.Sprintf("XC %s %s %s %s %s %s", bit(resolves), bit(rootsOK), bit(graphOK), bit(tagOK), common.Hex(srcRef), common.Hex(dstRef)), obs)
	run.Count("wrapper")
}

// ---------------------------------------------------------------- generator

var atRegexes = []string{"sbom", "sig$", `^application/vnd\.verif\.(sbom|doc)$`, "config", "verif", "^$", "layer", "idx", "",
	`^application/vnd\.oci\.image\.config\.v1\+json$`, "other|sig",
	// literal, unanchored: substring matches (never an exact-match artifactType parameter)
	"vnd.verif.s", "application/vnd.verif.sbo", "sig", "application/vnd.verif.sbom", "doc"}
var annRegexes = []string{"alpha", "^(beta|gamma)$", "a$", "^$", ""}
var annKeys = []string{"verif.key", "verif.key", "verif.key", "missing.key", "vnd.docker.reference.type", "verif.n"}

func randomFilters(r *common.Rand) []filterSpec {
	mk := func(kind string) filterSpec {
		f := filterSpec{Kind: kind}
		if kind == "A" {
			if !r.Chance(1, 12) {
				s := common.Pick(r, atRegexes)
				f.Regex = &s
			}
		} else {
			f.Key = common.Pick(r, annKeys)
			if !r.Chance(1, 4) {
				s := common.Pick(r, annRegexes)
				f.Regex = &s
			}
		}
		return f
	}
	switch r.Intn(10) {
	case 0, 1, 2, 3:
		return nil
	case 4, 5, 6:
		return []filterSpec{mk("A")}
	case 7:
		return []filterSpec{mk("N")}
	case 8:
		return []filterSpec{mk("A"), mk("N")}
	default:
		return []filterSpec{mk("N"), mk("A")}
	}
}

func randomGraph(r *common.Rand) *dag.Graph {
	o := dag.DefaultOptions()
	o.MinNodes = 3
	o.MaxNodes = 7 + r.Intn(10)
	o.MaxBlob = 40
	return dag.Random(r, o)
}

func randomSpec(r *common.Rand, g *dag.Graph) *caseSpec {
	spec := &caseSpec{Graph: g.Encode()}
	spec.Src = common.Pick(r, []string{"mem", "oci", "ocireopen", "ocireopen", "ocifs", "file", "remote-api", "remote-tags"})
	spec.Incomplete = isRemote(spec.Src) && r.Chance(1, 5)
	spec.Page = common.Pick(r, []int{0, 1, 2, 2, 3})
	// client page size independent of the registry's cap: unset, smaller, equal, larger
	spec.ClientN = common.Pick(r, []int{0, 0, 1, 2, 3, 10, 100})
	spec.Split = r.Chance(1, 3)
	spec.ServerFilter = r.Bool()
	mode := r.Intn(4) // 0: all plain, 1: all style 1, 2: all style 2, 3: mixed
	for range g.Nodes {
		switch mode {
		case 0:
			spec.Style = append(spec.Style, 0)
		case 1:
			spec.Style = append(spec.Style, 1)
		case 2:
			spec.Style = append(spec.Style, 2)
		default:
			spec.Style = append(spec.Style, r.Intn(3))
		}
	}
	// start node: prefer nodes that have predecessors
	var cands, withPreds []int
	for _, n := range g.Nodes {
		if n.Foreign() {
			continue
		}
		cands = append(cands, n.ID)
		remoteTruth = isRemote(spec.Src)
		np := len(truePreds(g, n.ID))
		remoteTruth = false
		if np > 0 {
			withPreds = append(withPreds, n.ID)
		}
	}
	if len(cands) == 0 {
		return nil // a graph of foreign layers only: nothing to start from
	}
	if len(withPreds) > 0 && r.Chance(4, 5) {
		spec.Start = common.Pick(r, withPreds)
	} else {
		spec.Start = common.Pick(r, cands)
	}
	spec.Limit = common.Pick(r, []int{0, 0, 0, 0, -1, 1, 1, 2, 2, 3, 4, 5, 7})
	if r.Chance(1, 3) {
		spec.Prefill = common.Pick(r, []int{10, 30, 60})
	}
	spec.StartStyle = r.Intn(3)
	if !isRemote(spec.Src) && r.Chance(1, 6) {
		spec.Custom = 1 + r.Intn(2)
	}
	spec.Filters = randomFilters(r)
	if r.Chance(1, 3) || (len(spec.Filters) > 0 && r.Chance(1, 3)) {
		spec.Fault = 1 + r.Intn(60)
	}
	spec.PermSeed = r.U64() % 1000000
	spec.Conc = r.Intn(5)
	spec.Raw = r.Chance(1, 3)
	spec.Dst = common.Pick(r, []string{"mem", "mem", "oci", "file"})
	spec.DstRef = common.Pick(r, []string{"", "copied", "v2"})
	return spec
}

func main() {
	run = common.Start("C03")
	defer func() {
		run.Extra["coverage_floor_violations"] = floorViolations
		run.Finish()
		if len(floorViolations) > 0 {
			fmt.Fprintln(os.Stderr, "COVERAGE FLOOR not met:", strings.Join(floorViolations, "; "))
			os.Exit(4)
		}
	}()
	run.Rule = "random OCI DAGs (3-16 nodes: referrer fans, indexes over referrers, shared sub-graphs, all five manifest kinds) x source kind x descriptor style x start node x Depth x filter stack; " +
		"distinct = distinct (served predecessor table, start, depth, filter truth tables); non-trivial = a filter or a depth limit is set or the root set is not just the start node"
	if run.Replay != "" {
		replay(run.Replay)
		return
	}
	r := run.Rand
	graphs := run.Scale(1100, 4200)
	for i := 0; i < graphs && hangs < 1; i++ {
		var g *dag.Graph
		if i%3 == 2 {
			g = fanGraph(r)
			run.Count("graph=fan")
		} else {
			g = randomGraph(r)
			run.Count("graph=random")
		}
		if i%10 == 0 || i%10 == 2 {
			if err := g.SelfTest(); err != nil {
				fmt.Fprintln(os.Stderr, "generator self-test failed:", err)
				os.Exit(3)
			}
			artifactTypeCases(g)
		}
		per := run.Scale(2, 3)
		for k := 0; k < per; k++ {
			if spec := randomSpec(r, g); spec != nil {
				runCase(spec)
			}
		}
		if run.Thorough() && len(g.Nodes) <= 6 {
			// small graphs: every start node x depth 0..3, no filter and one filter
			for _, n := range g.Nodes {
				if n.Foreign() {
					continue
				}
				for d := 0; d <= 3; d++ {
					spec := randomSpec(r, g)
					if spec == nil {
						continue
					}
					spec.Start, spec.Limit = n.ID, d
					runCase(spec)
				}
			}
		}
	}
	smallScope(r)
	smallScopeFilters()
	coverageFloors()
	for _, res := range []bool{true, false} {
		for _, rok := range []bool{true, false} {
			for _, gok := range []bool{true, false} {
				for _, tok := range []bool{true, false} {
					for _, dref := range []string{"", "other"} {
						wrapperCase(res, rok, gok, tok, "v1", dref)
					}
				}
			}
		}
	}
}

// coverageFloors: a run that silently lost a stream of cases must not pass.  Violations are a
// failure of the harness run (layer R), reported after the statistics are written.
var floorViolations []string

func coverageFloors() {
	if hangs > 0 {
		return // generation was cut short on purpose
	}
	need := func(key string, min int) {
		if run.Dist[key] < min {
			floorViolations = append(floorViolations, fmt.Sprintf("%s: %d cases, at least %d expected", key, run.Dist[key], min))
		}
	}
	zero := func(key string) {
		if run.Dist[key] > 0 {
			floorViolations = append(floorViolations, fmt.Sprintf("%s: %d (must be 0)", key, run.Dist[key]))
		}
	}
	for _, k := range []string{"src=mem", "src=oci", "src=ocireopen", "src=ocifs", "src=file", "src=remote-api", "src=remote-tags"} {
		need(k, 100)
	}
	need("graph=fan", 100)
	need("small-scope", 2000)
	need("small-scope-filters", 500)
	need("referrers-by-type", 100)
	need("fault=hit", 50)
	need("findRoots-fault=error", 50)
	need("custom-find-predecessors=1", 30)
	need("custom-find-predecessors=2", 30)
	need("fault=error-surfaced", 50)
	need("dst=prefilled", 100)
	need("filters=1", 300)
	need("filters=2", 100)
	need("depth=unlimited", 300)
	zero("source-build-failed")
	zero("destination-build-failed")
	zero("watchdog-expired")
}

func replay(path string) {
	data, err := os.ReadFile(path)
	if err != nil {
		panic(err)
	}
	var doc struct {
		Cases []json.RawMessage `json:"cases"`
	}
	if err := json.Unmarshal(data, &doc); err != nil {
		panic(err)
	}
	for _, c := range doc.Cases {
		if hangs > 0 {
			break // one confirmed hang is enough (each costs both watchdog bounds)
		}
		var probe map[string]json.RawMessage
		if json.Unmarshal(c, &probe) != nil {
			continue
		}
		if _, ok := probe["atnode"]; ok {
			var a struct {
				Graph []dag.Encoded `json:"graph"`
			}
			if json.Unmarshal(c, &a) == nil {
				artifactTypeCases(dag.Decode(a.Graph))
			}
			continue
		}
		if w, ok := probe["wrapper"]; ok {
			var a []any
			if json.Unmarshal(w, &a) == nil && len(a) == 6 {
				wrapperCase(a[0].(bool), a[1].(bool), a[2].(bool), a[3].(bool), a[4].(string), a[5].(string))
			}
			continue
		}
		if sg, ok := probe["smallfilter"]; ok {
			var sc smallFCase
			if json.Unmarshal(sg, &sc) == nil {
				runSmallF(&sc)
			}
			continue
		}
		if sg, ok := probe["smallgraph"]; ok {
			var sc smallCase
			if json.Unmarshal(sg, &sc) == nil {
				runSmall(&sc)
			}
			continue
		}
		if _, ok := probe["graph"]; !ok {
			continue
		}
		var spec caseSpec
		if err := json.Unmarshal(c, &spec); err != nil {
			fmt.Fprintln(os.Stderr, "bad replay case:", err)
			continue
		}
		runCase(&spec)
	}
}
