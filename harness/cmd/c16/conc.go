package main

// Concurrency: syncutil.Once traces (checked against the LTS of Model/Once.v),
// concurrentCache.Set with competing fetchers, and free-running concurrent
// Client.Do calls against the fake network (oracle only: the interleaving is
// not reproducible, the verdicts are interleaving-independent).

import (
	"context"
	"errors"
	"fmt"
	"io"
	"net/http"
	"runtime"
	"strings"
	"sync"
	"time"

	"oras.land/oras-go/v2/registry/remote/auth"
	"verifharness/common"
)

func jitter(r uint64) {
	switch r % 4 {
	case 0:
	case 1:
		runtime.Gosched()
	case 2:
		time.Sleep(time.Duration(r>>8%200) * time.Microsecond)
	default:
		for i := 0; i < int(r>>8%5); i++ {
			runtime.Gosched()
		}
	}
}

// A watchdog expiry is reported only if a fresh run of the same case expires again
// (an overloaded machine must not produce a finding).
var hangSeen = map[string]bool{}

func confirmHang(kind string, hseed uint64, rerun func()) bool {
	k := fmt.Sprintf("%s/%d", kind, hseed)
	if hangSeen[k] {
		wedged[kind]++
		return true
	}
	hangSeen[k] = true
	run.Count("watchdog/" + kind + "/first-expiry")
	rerun()
	return false
}

// wedged counts confirmed no-progress cases per stream.  A stream with two of them is
// abandoned (its goroutines are leaked): the check must end within seconds, with
// the violation, not sit out the harness timeout.
var wedged = map[string]int{}

const maxWedged = 2

func streamDead(kind string) bool {
	total := 0
	for _, c := range wedged {
		total += c
	}
	if wedged[kind] >= maxWedged || total >= 2*maxWedged {
		run.Count("watchdog/" + kind + "/skipped-after-wedge")
		return true
	}
	return false
}

// per-case watchdogs: cases take milliseconds; the first expiry is re-confirmed by a
// second, longer run of the same case unless the state itself proves the wedge
const (
	watchFirst   = 3 * time.Second
	watchConfirm = 8 * time.Second
)

func watch(kind string, hseed uint64) time.Duration {
	if hangSeen[fmt.Sprintf("%s/%d", kind, hseed)] {
		return watchConfirm
	}
	return watchFirst
}

// provenWedge inspects the cache behind a recorded Set execution: a call that has not
// returned, on a key for which no fetch function is running, whose in-flight entry
// has no run slot available, can never proceed.
func provenWedge(t *traceCache) (string, bool) {
	if t == nil {
		return "", false
	}
	t.mu.Lock()
	defer t.mu.Unlock()
	n := len(t.calls)
	returned := make([]bool, n)
	running := map[setCall]int{}
	for _, l := range t.log {
		switch l.kind {
		case 's':
			running[t.calls[l.call]]++
		case 'e', 'f', 'c':
			running[t.calls[l.call]]--
		case 'R', 'E':
			returned[l.call] = true
		}
	}
	for g, c := range t.calls {
		if returned[g] || running[c] != 0 {
			continue
		}
		id, ok := auth.VerifInFlight(t.inner, c.host, c.scheme, c.key)
		if !ok {
			continue
		}
		if o, is := id.(interface{ VerifSlotFree() bool }); is && !o.VerifSlotFree() {
			return fmt.Sprintf("call %d Set(%q, %v, %q) waits on an in-flight entry whose run slot is gone although no fetch function is running for that key", g, c.host, c.scheme, c.key), true
		}
	}
	return "", false
}

func waitTimeout(wg *sync.WaitGroup, d time.Duration) bool {
	done := make(chan struct{})
	go func() { wg.Wait(); close(done) }()
	select {
	case <-done:
		return true
	case <-time.After(d):
		return false
	}
}

// onceCase: n goroutines call Once.Do with their own contexts and functions.
func onceCase(hseed uint64) {
	r := common.NewRand(hseed)
	id := run.NewID()
	rep := map[string]string{"op": "O", "hseed": fmt.Sprintf("%d", hseed)}
	n := 2 + r.Intn(5)
	o := auth.VerifNewOnce()
	var mu sync.Mutex
	var trace []string
	logf := func(format string, a ...any) {
		mu.Lock()
		trace = append(trace, fmt.Sprintf(format, a...))
		mu.Unlock()
	}
	type plan struct {
		kind   int // 0 value, 1 error value, 2 f sees its context cancelled, 3 same but returns the error wrapped (as net/http does),
		// 4 the caller's context is ALREADY cancelled when it calls Do, and it calls before everybody else,
		// 5 f panics (the caller recovers outside Do)
		cancel bool
		j1, j2 uint64
	}
	plans := make([]plan, n)
	for g := range plans {
		plans[g] = plan{kind: []int{0, 0, 1, 2, 2, 3, 4, 5}[r.Intn(8)], cancel: r.Chance(1, 4), j1: r.U64(), j2: r.U64()}
	}
	errVal := make([]error, n)
	for g := range errVal {
		errVal[g] = fmt.Errorf("fetch error %d", g)
	}
	decode := func(res interface{}, err error) int {
		if err != nil {
			for g, e := range errVal {
				if err == e {
					return 200 + g
				}
			}
			return 999
		}
		if v, ok := res.(int); ok {
			return v
		}
		return 998
	}
	var wg sync.WaitGroup
	var failMu sync.Mutex
	var fails []violation
	addFail := func(sig, format string, a ...any) {
		failMu.Lock()
		fails = append(fails, violation{sig, fmt.Sprintf(format, a...)})
		failMu.Unlock()
	}
	// the callers with an already cancelled context go first; the others start when
	// they have returned (or after a moment)
	var early sync.WaitGroup
	for g := 0; g < n; g++ {
		if plans[g].kind == 4 {
			early.Add(1)
		}
	}
	earlyDone := make(chan struct{})
	go func() { waitTimeout(&early, 2*time.Millisecond); close(earlyDone) }()
	returned := make([]bool, n)
	for g := 0; g < n; g++ {
		wg.Add(1)
		go func(g int) {
			defer wg.Done()
			defer func() { mu.Lock(); returned[g] = true; mu.Unlock() }()
			p := plans[g]
			ctx, cancel := context.WithCancel(context.Background())
			defer cancel()
			if p.kind == 4 {
				defer early.Done()
				cancel()
			} else {
				<-earlyDone
				if p.cancel || p.kind >= 2 {
					go func() { jitter(p.j2); jitter(p.j2 >> 3); cancel() }()
				}
				jitter(p.j1)
			}
			called := false
			defer func() {
				// kind 5: the panic of f comes out of Do (after its deferred recover handed the slot back)
				if rec := recover(); rec != nil {
					if p.kind != 5 {
						addFail("once-unexpected-panic", "goroutine %d: Do panicked: %v", g, rec)
					}
				} else if p.kind == 5 && called {
					addFail("once-panic-swallowed", "goroutine %d: its function panicked but Do returned normally", g)
				}
			}()
			first, res, err := auth.VerifOnceDo(o, ctx, func() (interface{}, error) {
				called = true
				logf("a%d", g)
				jitter(p.j1 >> 5)
				if p.kind == 5 {
					logf("p%d", g)
					panic(fmt.Sprintf("fetch %d blew up", g))
				}
				switch p.kind {
				case 0:
					logf("d%d.%d", g, 100+g)
					return 100 + g, nil
				case 1:
					logf("d%d.%d", g, 200+g)
					return nil, errVal[g]
				}
				<-ctx.Done()
				logf("c%d", g)
				if p.kind == 3 {
					return nil, fmt.Errorf("Get \"http://auth.test/token\": %w", ctx.Err())
				}
				return nil, ctx.Err()
			})
			switch {
			case first:
				if !called || p.kind >= 2 || decode(res, err) != map[int]int{0: 100 + g, 1: 200 + g}[p.kind] {
					addFail("once-first-result", "goroutine %d got (true, %v, %v) which is not the result of its own function", g, res, err)
				}
			case called:
				if p.kind < 2 || p.kind == 5 || res != nil || !errors.Is(err, ctx.Err()) {
					addFail("once-cancel-result", "goroutine %d ran f to a cancellation but got (false, %v, %v)", g, res, err)
				}
			case res == nil && err != nil && ctx.Err() != nil && err == ctx.Err():
				logf("x%d", g)
			default:
				logf("r%d.%d", g, decode(res, err))
			}
		}(g)
	}
	if !waitTimeout(&wg, watch("once", hseed)) {
		// who is stuck, and in which state is the Once?
		mu.Lock()
		tr := append([]string(nil), trace...)
		var stuck []int
		for g, ok := range returned {
			if !ok {
				stuck = append(stuck, g)
			}
		}
		mu.Unlock()
		inF, published := false, false
		for _, e := range tr {
			switch e[0] {
			case 'a':
				inF = true
			case 'c', 'p':
				inF = false
			case 'd':
				inF, published = false, true
			}
		}
		if !inF && !published && !o.VerifSlotFree() {
			// proof of the wedge in the state itself: nobody runs the function, no result
			// is published, and the run slot is gone -- the waiting callers can never proceed
			wedged["once"]++
			run.OracleFail(id, "once-wedged", fmt.Sprintf("callers %v of Once.Do wait forever: nobody is inside the function, no result is published, yet the run slot is not available (a caller took it and returned without handing it back); trace %v", stuck, tr), rep)
			return
		}
		if confirmHang("once", hseed, func() { onceCase(hseed) }) {
			run.OracleFail(id, "once-wedged", fmt.Sprintf("callers %v of Once.Do did not return (twice); trace so far %v", stuck, tr), rep)
		}
		return
	}
	// for the channel LTS of Model/Once.v a panic of f is a hand-over like a cancellation
	oTrace := make([]string, len(trace))
	for i, e := range trace {
		oTrace[i] = e
		if e[0] == 'p' {
			oTrace[i] = "c" + e[1:]
		}
	}
	line := fmt.Sprintf("O %d %s", len(oTrace), strings.Join(oTrace, " "))
	run.Case(id, line, "ACCEPT")
	run.TracesAgainstImpl++
	run.Count(fmt.Sprintf("once/n=%d", n))
	run.Nontrivial(strings.Join(trace, " "))
	// oracle: one published result, shared by everybody who got one
	done, val := 0, -1
	for _, e := range trace {
		if e[0] == 'd' {
			done++
			fmt.Sscanf(e[strings.Index(e, ".")+1:], "%d", &val)
		}
	}
	if done > 1 {
		addFail("once-two-results", "the function completed %d times: %v", done, trace)
	}
	// the same execution on the slot machine generated from once.go: at the end the
	// model's slot must be what the hook sees
	{
		slotState := "taken"
		if done > 0 {
			slotState = "closed"
		} else if o.VerifSlotFree() {
			slotState = "free"
		}
		run.Case(run.NewID(), fmt.Sprintf("OS %d %s", len(trace), strings.Join(trace, " ")), "ACCEPT "+slotState)
		run.Count("once-slot/" + slotState)
	}
	// slot bookkeeping at the quiescent point: every caller has returned, so the slot
	// is available again or a result is published
	if done == 0 && !o.VerifSlotFree() {
		addFail("once-slot-lost", "every caller of Once.Do has returned, no result is published, but the run slot is not available: the next caller will wait forever; trace %v", trace)
	}
	running := -1
	for _, e := range trace {
		var g, v int
		switch e[0] {
		case 'a':
			fmt.Sscanf(e[1:], "%d", &g)
			if running != -1 {
				addFail("once-two-in-flight", "goroutine %d entered f while %d was inside: %v", g, running, trace)
			}
			running = g
		case 'd', 'c', 'p':
			running = -1
		case 'r':
			fmt.Sscanf(e[1:], "%d.%d", &g, &v)
			if done == 0 || v != val {
				addFail("once-not-shared", "goroutine %d received %d but the stored result is %d: %v", g, v, val, trace)
			}
		}
	}
	for _, f := range fails {
		run.OracleFail(id, f.sig, f.msg, rep)
	}
}

// setCase: concurrentCache.Set with competing fetchers for a few (host, scheme, key).
func setCase(hseed uint64) {
	r := common.NewRand(hseed)
	id := run.NewID()
	rep := map[string]string{"op": "K", "hseed": fmt.Sprintf("%d", hseed)}
	flavour := common.Pick(r, []string{"shared", "single"})
	tc := &traceCache{inner: newCache(flavour)}
	var cache auth.Cache = tc
	hosts := []string{"reg0.test", "reg1.test:5000"}
	keys := []string{"", "repository:a:pull", "repository:a:pull repository:b:push"}
	n := 3 + r.Intn(8)
	type call struct {
		host, key string
		scheme    auth.Scheme
		j         uint64
		fail      bool
		cancel    bool
		panics    bool // the fetch function panics (the caller recovers outside Set)
	}
	calls := make([]call, n)
	h0, k0 := common.Pick(r, hosts), common.Pick(r, keys)
	for i := range calls {
		calls[i] = call{host: h0, key: k0, scheme: common.Pick(r, []auth.Scheme{auth.SchemeBearer, auth.SchemeBearer, auth.SchemeBasic}), j: r.U64(), fail: r.Chance(1, 8), cancel: r.Chance(1, 6), panics: r.Chance(1, 10)}
		if r.Chance(1, 3) {
			calls[i].host = common.Pick(r, hosts)
		}
		if r.Chance(1, 3) {
			calls[i].key = common.Pick(r, keys)
		}
	}
	tokenOf := func(c call, i int) string { return fmt.Sprintf("tok|%s|%s|%s|%d", c.host, c.scheme, c.key, i) }
	// tight: all calls start together and fetch without delay, so that the
	// follow-up Set of the single-context cache (key "") of different calls overlap
	tight := r.Chance(1, 2)
	if tight {
		for i := range calls {
			calls[i].key = fmt.Sprintf("repository:r%d:pull", i%3)
			calls[i].host = h0
		}
	}
	start := make(chan struct{})
	var wg sync.WaitGroup
	var mu sync.Mutex
	var fails []violation
	fetched := 0
	for i, c := range calls {
		wg.Add(1)
		go func(i int, c call) {
			defer wg.Done()
			defer func() {
				if rec := recover(); rec != nil && !c.panics {
					mu.Lock()
					fails = append(fails, violation{"set-unexpected-panic", fmt.Sprintf("Set(%q, %v, %q) panicked: %v", c.host, c.scheme, c.key, rec)})
					mu.Unlock()
				}
			}()
			<-start
			if !tight {
				jitter(c.j)
			}
			ctx, cancelCtx := context.WithCancel(context.Background())
			defer cancelCtx()
			if c.cancel {
				go func() { jitter(c.j >> 11); jitter(c.j >> 17); cancelCtx() }()
			}
			tok, err := cache.Set(ctx, c.host, c.scheme, c.key, func(ctx context.Context) (string, error) {
				mu.Lock()
				fetched++
				mu.Unlock()
				if !tight {
					jitter(c.j >> 7)
				}
				if ctx.Err() != nil {
					return "", ctx.Err()
				}
				if c.panics {
					panic(fmt.Sprintf("fetch %d blew up", i))
				}
				if c.fail {
					return "", fmt.Errorf("fetch %d failed", i)
				}
				return tokenOf(c, i), nil
			})
			if err != nil {
				return
			}
			// Set returns what its own fetch returned, or the result of a concurrent
			// Set for the SAME host, scheme and key (also for the single-context cache:
			// only its GetToken ignores the key)
			want := fmt.Sprintf("tok|%s|%s|%s|", c.host, c.scheme, c.key)
			if !strings.HasPrefix(tok, want) {
				sig := "set-cross-key"
				mu.Lock()
				fails = append(fails, violation{sig, fmt.Sprintf("%s cache: Set(%q, %v, %q) returned %q, a token fetched for another host, scheme or scope set", flavour, c.host, c.scheme, c.key, tok)})
				mu.Unlock()
			}
		}(i, c)
	}
	close(start)
	if !waitTimeout(&wg, watch("set", hseed)) {
		if why, proven := provenWedge(tc); proven {
			wedged["set"]++
			line, _, _ := buildSetTrace(tc)
			run.OracleFail(id, "set-wedged", why+"; events so far: "+line, rep)
			return
		}
		if confirmHang("set", hseed, func() { setCase(hseed) }) {
			line, _, _ := buildSetTrace(tc)
			run.OracleFail(id, "set-wedged", "calls of the auth cache's Set did not return (twice): no progress; events so far: "+line, rep)
		}
		return
	}
	setTraceCase(tc, "set-"+flavour)
	run.Evaluations++
	run.Count("set/" + flavour)
	run.Count(fmt.Sprintf("set/fetches-saved=%d", min(n-fetched, 9)))
	run.Nontrivial(fmt.Sprintf("K%d", hseed))
	for _, h := range hosts {
		for _, k := range keys {
			for _, sch := range []auth.Scheme{auth.SchemeBearer, auth.SchemeBasic} {
				tok, err := cache.GetToken(context.Background(), h, sch, k)
				if err != nil {
					continue
				}
				want := fmt.Sprintf("tok|%s|%s|%s|", h, sch, k)
				if flavour == "single" {
					want = fmt.Sprintf("tok|%s|%s|", h, sch)
				}
				if !strings.HasPrefix(tok, want) {
					fails = append(fails, violation{"cache-cross-key", fmt.Sprintf("GetToken(%q, %v, %q) = %q", h, sch, k, tok)})
				}
			}
		}
	}
	for _, f := range fails {
		run.OracleFail(id, f.sig, f.msg, rep)
	}
}

// mixCase: concurrent Client.Do calls sharing one cache.
func mixCase(hseed uint64) {
	r := common.NewRand(hseed)
	w := newWorld(r)
	id := run.NewID()
	rep := map[string]string{"op": "M", "hseed": fmt.Sprintf("%d", hseed)}
	flavour := common.Pick(r, []string{"shared", "shared", "single", "none"})
	oauth2 := r.Chance(1, 3)
	w.perReq = map[string]int{}
	w.cur = nil
	w.alwaysScope = true
	w.gate = func(string) { time.Sleep(200 * time.Microsecond) }
	var tc *traceCache
	var cache auth.Cache
	if flavour != "none" {
		tc = &traceCache{inner: newCache(flavour)}
		cache = tc
		// a call that receives the token of another call's in-flight fetch: the model's
		// answer AShare at this point of its script
		tc.onShared = func(job int, scheme auth.Scheme, tok string) {
			w.mu.Lock()
			defer w.mu.Unlock()
			if is, ok := w.tokens[tok]; ok && scheme == auth.SchemeBearer {
				w.jobAnswers[job] = append(w.jobAnswers[job], fmt.Sprintf("S%d", is.serial))
				run.Count("mixjob/shared-fetch-result")
			}
		}
	}
	if tc != nil {
		tc.onSharedErr = func(job int) {
			w.mu.Lock()
			defer w.mu.Unlock()
			w.jobAnswers[job] = append(w.jobAnswers[job], "Z") // the model's answer AShareFail
			run.Count("mixjob/shared-fetch-error")
		}
	}
	client := &auth.Client{Client: &http.Client{Transport: w}, Cache: cache, Credential: w.credentialFunc(), ForceAttemptOAuth2: oauth2}
	n := 4 + r.Intn(12)
	type job struct {
		g            *regState
		repo, method string
		hints        []string
		ghints       []string // global scope hints (WithScopes)
		alias        bool     // connect to the registry's alias address, Host = its name
		j            uint64
		valid        bool
		cancelFetch  bool // the caller's context is cancelled while its token request is in flight
		cancel401    bool // the caller's context is cancelled when the registry's challenge arrives
		cancel       context.CancelFunc
	}
	jobs := make([]job, n)
	w.perJobFetch = map[int]int{}
	w.jobEvents, w.jobAnswers = map[int][]string{}, map[int][]string{}
	w.cancelAt401 = map[int]context.CancelFunc{}
	w.noRedirect = true
	w.fetchHook = func(req *http.Request) error {
		if i, ok := req.Context().Value(jobKey{}).(int); ok && jobs[i].cancelFetch {
			jb := &jobs[i]
			time.Sleep(300 * time.Microsecond)
			jb.cancel()
			return req.Context().Err()
		}
		return nil
	}
	for i := range jobs {
		g := common.Pick(r, w.regs)
		jobs[i] = job{g: g, repo: common.Pick(r, []string{"lib/a", "lib/a", "lib/b"}), method: common.Pick(r, []string{"GET", "GET", "DELETE", "PUT"}),
			hints: genHints(r), ghints: genHints(r), alias: r.Chance(1, 6), j: r.U64(), valid: w.validFor(g, oauth2) && g.mode != modeWeird}
		if r.Chance(1, 6) {
			jobs[i].cancelFetch = true
			jobs[i].valid = false
		} else if r.Chance(1, 6) {
			jobs[i].cancel401 = true
			jobs[i].valid = false
		}
	}
	results := make([]string, n)
	var wg sync.WaitGroup
	for i := range jobs {
		jb := &jobs[i]
		wg.Add(1)
		go func(i int, jb *job) {
			defer wg.Done()
			jitter(jb.j)
			ctx, cancel := context.WithTimeout(context.Background(), 30*time.Second)
			defer cancel()
			jb.cancel = cancel
			if jb.cancel401 {
				w.mu.Lock()
				w.cancelAt401[i] = cancel
				w.mu.Unlock()
				if jb.j&1 == 0 {
					time.Sleep(0) // the doomed callers tend to arrive first
				}
			} else if jb.j&3 != 0 {
				runtime.Gosched()
			}
			ctx = context.WithValue(ctx, jobKey{}, i)
			if len(jb.hints) > 0 {
				ctx = auth.WithScopesForHost(ctx, jb.g.host, clone(jb.hints)...)
			}
			if len(jb.ghints) > 0 {
				ctx = auth.WithScopes(ctx, clone(jb.ghints)...)
			}
			var rd io.Reader
			if jb.method == "PUT" {
				rd = strings.NewReader("manifest-bytes") // rewindable body, re-sent after the challenge
			}
			target := jb.g.host
			if jb.alias {
				target = jb.g.alias
			}
			req, _ := http.NewRequestWithContext(ctx, jb.method, "http://"+target+"/v2/"+jb.repo+"/manifests/latest", rd)
			req.Host = jb.g.host
			req.Header.Set("X-Verif-Req", fmt.Sprintf("%d", i))
			res, err := client.Do(req)
			results[i] = classifyResult(res, err)
			if res != nil {
				io.Copy(io.Discard, res.Body)
				res.Body.Close()
			}
		}(i, jb)
	}
	if !waitTimeout(&wg, watch("do", hseed)) {
		if why, proven := provenWedge(tc); proven {
			wedged["do"]++
			run.OracleFail(id, "do-wedged", fmt.Sprintf("concurrent mix %d (cache %s): %s", hseed, flavour, why), rep)
			return
		}
		if confirmHang("do", hseed, func() { mixCase(hseed) }) {
			var stuck []int
			for i, res := range results {
				if res == "" {
					stuck = append(stuck, i)
				}
			}
			run.OracleFail(id, "do-wedged", fmt.Sprintf("concurrent mix %d (cache %s): requests %v did not return (twice): no progress", hseed, flavour, stuck), rep)
		}
		return
	}
	setTraceCase(tc, "mix-"+flavour)
	w.mu.Lock()
	defer w.mu.Unlock()
	// every call on its own, replayed on Client.Do-with-oracle-reads (Model/AuthConc.v):
	// what the cache told it and what the servers answered must give exactly its sends
	for i := range jobs {
		jb := &jobs[i]
		if jb.cancelFetch || jb.cancel401 {
			continue
		}
		var rd *jobReads
		if tc != nil {
			tc.mu.Lock()
			rd = tc.reads[i]
			tc.mu.Unlock()
		}
		if rd == nil {
			rd = &jobReads{scheme: "-"}
		}
		o := 0
		if oauth2 {
			o = 1
		}
		var sb strings.Builder
		fmt.Fprintf(&sb, "J %s %d %d", flavour, o, len(w.regs))
		for _, g := range w.regs {
			fmt.Fprintf(&sb, " %d %s", g.idx, credFlags(g.clientCred))
		}
		sb.WriteString(w.credErrList())
		fmt.Fprintf(&sb, " %d", len(w.ptable))
		for _, e := range w.ptable {
			sb.WriteString(" " + e)
		}
		body := "none"
		if jb.method == "PUT" {
			body = "rewind"
		}
		fmt.Fprintf(&sb, " %d %s %s %s %s", jb.g.idx, body, hexList(jb.hints), hexList(jb.ghints), rd.scheme)
		if rd.tok1 != "" {
			sb.WriteString(" " + w.projectToken(rd.tok1Scheme, rd.tok1))
		} else {
			sb.WriteString(" -")
		}
		fmt.Fprintf(&sb, " %d", len(rd.tok2))
		for _, t2 := range rd.tok2 {
			if t2.found {
				fmt.Fprintf(&sb, " %s %s", common.Hex(t2.key), w.projectToken(t2.scheme, t2.tok))
			} else {
				fmt.Fprintf(&sb, " %s -", common.Hex(t2.key))
			}
		}
		ans := w.jobAnswers[i]
		fmt.Fprintf(&sb, " %d", len(ans))
		for _, a := range ans {
			sb.WriteString(" " + a)
		}
		impl := strings.Join(append(append([]string{}, w.jobEvents[i]...), results[i]), " ")
		if tc != nil && len(rd.sets) > 0 {
			st := rd.sets[len(rd.sets)-1]
			impl += fmt.Sprintf(" +%s:%s:%s", strings.ToLower(st.scheme.String()), common.Hex(st.key), w.projectToken(st.scheme, st.tok))
		}
		run.Case(run.NewID(), sb.String(), impl)
		run.Count("mixjob/" + flavour)
	}
	run.Evaluations++
	run.Count("mix/" + flavour)
	run.Nontrivial(fmt.Sprintf("M%d", hseed))
	total := 0
	for _, c := range w.fetchCount {
		total += c
	}
	run.Count(fmt.Sprintf("mix/token-fetches-per-10-requests=%d", total*10/n))
	for _, v := range w.violations {
		run.OracleFail(id, v.sig, fmt.Sprintf("concurrent mix %d (cache %s): %s", hseed, flavour, v.msg), rep)
	}
	if total > n {
		run.OracleFail(id, "budget", fmt.Sprintf("concurrent mix %d: %d token fetches for %d requests", hseed, total, n), rep)
	}
	for i, jb := range jobs {
		if c := w.perJobFetch[i]; c > 1 {
			run.OracleFail(id, "budget", fmt.Sprintf("concurrent mix %d: request %d fetched a token %d times", hseed, i, c), rep)
		}
		if c := w.perReq[fmt.Sprintf("%d", i)]; c > 3 {
			run.OracleFail(id, "budget", fmt.Sprintf("concurrent mix %d: request %d was sent %d times to the registry", hseed, i, c), rep)
		}
		if jb.valid && results[i] == "=transport" {
			run.OracleFail(id, "foreign-cancellation", fmt.Sprintf("concurrent mix %d (cache %s): request %d to %s was not cancelled and no send of it failed, but it ended with another request's cancellation", hseed, flavour, i, jb.g.host), rep)
		} else if jb.valid && !w.noScope && results[i] != "=ok" {
			run.OracleFail(id, "valid-credentials-rejected", fmt.Sprintf("concurrent mix %d (cache %s): request %d to %s holds valid credentials but ended with %s", hseed, flavour, i, jb.g.host, results[i]), rep)
		}
	}
}
