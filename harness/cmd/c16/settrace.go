package main

// Recording of concurrent cache.Set executions and their translation into an
// event list of the transition system of Model/CacheSet.v.
//
// traceCache wraps any auth.Cache.  Per Set call it records, under one lock:
//   'n' Set is entered
//   's' the call's fetch function starts (with the identity of the in-flight
//       entry it runs under, read through the hook auth.VerifInFlight)
//   'e' / 'f' / 'c'  the fetch function ends with a token / an error / a cancellation
//   'R' / 'E' Set returns a token / an error
// LoadOrStore and Delete on the status map are not observable; buildSetTrace
// places them at the latest point that the observations allow:
//   CLoad of a fetcher  at its fetch start
//   CLoad of a caller that received another call's result: at its return, or
//         just before the entry it read is deleted
//   CDelete             at the return of the call whose fetch completed, or just
//         before a newer entry for the same key is first seen
// The model line is
//   KS ncalls {g host scheme hexkey}* nev ev*     ev = L<g>.<inst> a<g> d<g>.<v> c<g> r<g>.<v> D<g>

import (
	"context"
	"errors"
	"fmt"
	"strings"
	"sync"

	"oras.land/oras-go/v2/registry/remote/auth"
	"verifharness/common"
)

type setCall struct {
	host   string
	scheme auth.Scheme
	key    string
}

type setLog struct {
	kind byte
	call int
	inst any
	ok   bool
	val  string
	err  error
}

type traceCache struct {
	inner auth.Cache
	mu    sync.Mutex
	calls []setCall
	log   []setLog
	// what each job of a concurrent mix was told by the cache (the oracle answers of
	// Model/AuthConc.v) and what it stored
	reads map[int]*jobReads
	// onShared is called when Set hands a job the result of ANOTHER call's fetch
	onShared func(job int, scheme auth.Scheme, tok string)
	// onSharedErr: Set hands a job the ERROR of another call's fetch
	onSharedErr func(job int)
}

type jobReads struct {
	schemeAsked bool
	scheme      string // "-" not found, "basic", "bearer", "unknown"
	tok1        string // raw token of the first GetToken ("" = not found / not asked)
	tok1Scheme  auth.Scheme
	tok2        []tokRead
	sets        []tokRead // Set calls that returned a token
	fetched     bool      // the job's own fetch function ran
	setCalls    int
}

type tokRead struct {
	scheme auth.Scheme
	key    string
	tok    string
	found  bool
}

func (t *traceCache) job(ctx context.Context) *jobReads {
	jb, ok := ctx.Value(jobKey{}).(int)
	if !ok {
		return nil
	}
	if t.reads == nil {
		t.reads = map[int]*jobReads{}
	}
	if t.reads[jb] == nil {
		t.reads[jb] = &jobReads{scheme: "-"}
	}
	return t.reads[jb]
}

func (t *traceCache) GetScheme(ctx context.Context, registry string) (auth.Scheme, error) {
	sch, err := t.inner.GetScheme(ctx, registry)
	t.mu.Lock()
	if r := t.job(ctx); r != nil {
		r.schemeAsked = true
		if err == nil {
			r.scheme = strings.ToLower(sch.String())
		}
	}
	t.mu.Unlock()
	return sch, err
}

func (t *traceCache) GetToken(ctx context.Context, registry string, scheme auth.Scheme, key string) (string, error) {
	tok, err := t.inner.GetToken(ctx, registry, scheme, key)
	t.mu.Lock()
	if r := t.job(ctx); r != nil {
		first := len(r.tok2) == 0 && r.tok1Scheme == 0 && (r.scheme == "basic" || r.scheme == "bearer")
		if first {
			r.tok1Scheme = scheme
			if err == nil {
				r.tok1 = tok
			}
		} else {
			r.tok2 = append(r.tok2, tokRead{scheme, key, tok, err == nil})
		}
	}
	t.mu.Unlock()
	return tok, err
}

func (t *traceCache) add(l setLog) {
	t.mu.Lock()
	t.log = append(t.log, l)
	t.mu.Unlock()
}

// a fetch that ends with a (possibly wrapped) context error is a cancellation: the
// next waiting caller takes over (syncutil.Once)
func isCancel(err error) bool {
	return errors.Is(err, context.Canceled) || errors.Is(err, context.DeadlineExceeded)
}

func (t *traceCache) Set(ctx context.Context, registry string, scheme auth.Scheme, key string, fetch func(context.Context) (string, error)) (string, error) {
	t.mu.Lock()
	id := len(t.calls)
	t.calls = append(t.calls, setCall{registry, scheme, key})
	t.log = append(t.log, setLog{kind: 'n', call: id})
	t.mu.Unlock()
	t.mu.Lock()
	if r := t.job(ctx); r != nil {
		r.setCalls++
	}
	t.mu.Unlock()
	tok, err := t.inner.Set(ctx, registry, scheme, key, func(ctx context.Context) (string, error) {
		t.mu.Lock()
		if r := t.job(ctx); r != nil {
			r.fetched = true
		}
		t.mu.Unlock()
		inst, ok := auth.VerifInFlight(t.inner, registry, scheme, key)
		t.add(setLog{kind: 's', call: id, inst: inst, ok: ok})
		defer func() {
			// a panicking fetch: Once.Do's deferred recover hands the slot over, like a cancellation
			if rec := recover(); rec != nil {
				t.add(setLog{kind: 'c', call: id})
				panic(rec)
			}
		}()
		v, e := fetch(ctx)
		switch {
		case e == nil:
			t.add(setLog{kind: 'e', call: id, val: v})
		case isCancel(e):
			t.add(setLog{kind: 'c', call: id})
		default:
			t.add(setLog{kind: 'f', call: id, err: e})
		}
		return v, e
	})
	if err != nil {
		t.add(setLog{kind: 'E', call: id, err: err})
		t.mu.Lock()
		own := true
		if r := t.job(ctx); r != nil {
			own = r.fetched
		}
		t.mu.Unlock()
		if jb, ok := ctx.Value(jobKey{}).(int); ok && !own && !isCancel(err) && t.onSharedErr != nil {
			t.onSharedErr(jb)
		}
	} else {
		t.add(setLog{kind: 'R', call: id, val: tok})
		t.mu.Lock()
		shared := false
		if r := t.job(ctx); r != nil {
			r.sets = append(r.sets, tokRead{scheme, key, tok, true})
			shared = !r.fetched
		}
		t.mu.Unlock()
		if jb, ok := ctx.Value(jobKey{}).(int); ok && shared && t.onShared != nil {
			t.onShared(jb, scheme, tok)
		}
	}
	return tok, err
}

// buildSetTrace returns the model line and whether the execution can be judged
// (every delivered result is attributable to exactly one fetch).
func buildSetTrace(t *traceCache) (line string, judged bool, why string) {
	t.mu.Lock()
	defer t.mu.Unlock()
	n := len(t.calls)
	fetcher := make([]bool, n)
	cancelled := make([]bool, n) // the call's own fetch ended in a cancellation
	valOwner := map[string][]int{}
	type errOwner struct {
		err error
		g   int
	}
	var errOwners []errOwner
	for _, l := range t.log {
		switch l.kind {
		case 's':
			fetcher[l.call] = true
		case 'e':
			valOwner[l.val] = append(valOwner[l.val], l.call)
		case 'f':
			errOwners = append(errOwners, errOwner{l.err, l.call})
		case 'c':
			cancelled[l.call] = true
		}
	}
	// who read whose result
	readerOf := make([]int, n) // -1: none
	for i := range readerOf {
		readerOf[i] = -1
	}
	readers := map[int][]int{}
	for _, l := range t.log {
		if (l.kind != 'R' && l.kind != 'E') || fetcher[l.call] {
			continue
		}
		f := -1
		if l.kind == 'R' {
			owners := valOwner[l.val]
			if len(owners) != 1 {
				return "", false, fmt.Sprintf("value delivered to call %d has %d possible fetches", l.call, len(owners))
			}
			f = owners[0]
		} else {
			if isCancel(l.err) {
				continue // gave up waiting: no effect on the state
			}
			cnt := 0
			for _, eo := range errOwners {
				if eo.err == l.err {
					f = eo.g
					cnt++
				}
			}
			if cnt != 1 {
				return "", false, fmt.Sprintf("error delivered to call %d has %d possible fetches", l.call, cnt)
			}
		}
		readerOf[l.call] = f
		readers[f] = append(readers[f], l.call)
	}
	keyOf := func(g int) string {
		c := t.calls[g]
		return c.host + "\x00" + c.scheme.String() + "\x00" + c.key
	}
	var evs []string
	instNum := map[any]int{}
	instOf := make([]int, n)
	loaded := make([]bool, n)
	entered := make([]bool, n)
	pending := map[string]int{}
	flush := func(k string) {
		f, ok := pending[k]
		if !ok {
			return
		}
		for _, r := range readers[f] {
			// only calls that had already entered Set can have loaded the entry
			// before it was deleted
			if !loaded[r] && entered[r] {
				evs = append(evs, fmt.Sprintf("L%d.%d", r, instOf[f]))
				loaded[r] = true
			}
		}
		evs = append(evs, fmt.Sprintf("D%d", f))
		delete(pending, k)
	}
	for _, l := range t.log {
		g := l.call
		switch l.kind {
		case 'n':
			entered[g] = true
		case 's':
			num := 9999 // no in-flight entry under the call's own key: the model will reject
			if l.ok {
				var seen bool
				num, seen = instNum[l.inst]
				if !seen {
					flush(keyOf(g))
					num = len(instNum)
					instNum[l.inst] = num
				}
			}
			instOf[g] = num
			if !loaded[g] {
				evs = append(evs, fmt.Sprintf("L%d.%d", g, num))
				loaded[g] = true
			}
			evs = append(evs, fmt.Sprintf("a%d", g))
		case 'e', 'f':
			evs = append(evs, fmt.Sprintf("d%d.%d", g, g))
			pending[keyOf(g)] = g
		case 'c':
			evs = append(evs, fmt.Sprintf("c%d", g))
		case 'R', 'E':
			if fetcher[g] {
				if f, ok := pending[keyOf(g)]; ok && f == g {
					flush(keyOf(g))
				}
				continue
			}
			f := readerOf[g]
			if f < 0 {
				continue
			}
			if !loaded[g] {
				evs = append(evs, fmt.Sprintf("L%d.%d", g, instOf[f]))
				loaded[g] = true
			}
			evs = append(evs, fmt.Sprintf("r%d.%d", g, f))
		}
	}
	hostIdx := map[string]int{}
	var sb strings.Builder
	fmt.Fprintf(&sb, "KS %d", n)
	for g, c := range t.calls {
		if _, ok := hostIdx[c.host]; !ok {
			hostIdx[c.host] = len(hostIdx)
		}
		fmt.Fprintf(&sb, " %d %d %s %s", g, hostIdx[c.host], strings.ToLower(c.scheme.String()), common.Hex(c.key))
	}
	fmt.Fprintf(&sb, " %d %s", len(evs), strings.Join(evs, " "))
	return strings.TrimRight(sb.String(), " "), true, ""
}

// setTraceCase emits the recorded execution as a correspondence case.
func setTraceCase(t *traceCache, what string) {
	if t == nil {
		return
	}
	line, judged, why := buildSetTrace(t)
	if !judged {
		run.Count("settrace/" + what + "/unjudged")
		_ = why
		return
	}
	id := run.NewID()
	run.Case(id, line, "ACCEPT")
	run.TracesAgainstImpl++
	run.Count("settrace/" + what)
	if len(t.calls) > 1 {
		run.Nontrivial(line)
	}
}
