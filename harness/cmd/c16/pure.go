package main

// Pure parts of C16: CleanScopes, cleanActions, GetAllScopesForHost,
// parseChallenge.  Model input lines:
//   S n <hex>*               CleanScopes
//   A n <hex>*               cleanActions
//   G nh <hex>* ng <hex>*    GetAllScopesForHost
//   C <hex>                  parseChallenge
// The oracles use only the generator's ground truth (the triples the scopes
// were built from, the parameters a challenge was built from) and algebraic
// laws evaluated on the implementation itself.

import (
	"context"
	"fmt"
	"sort"
	"strings"
	"unicode/utf8"

	"oras.land/oras-go/v2/registry/remote/auth"
	"verifharness/common"
)

func hexList(l []string) string {
	var sb strings.Builder
	fmt.Fprintf(&sb, "%d", len(l))
	for _, s := range l {
		sb.WriteByte(' ')
		sb.WriteString(common.Hex(s))
	}
	return sb.String()
}

func showList(l []string) string {
	var sb strings.Builder
	sb.WriteString("L")
	for _, s := range l {
		sb.WriteByte(' ')
		sb.WriteString(common.Hex(s))
	}
	return sb.String()
}

func clone(l []string) []string { return append([]string(nil), l...) }

func eqList(a, b []string) bool {
	if len(a) != len(b) {
		return false
	}
	for i := range a {
		if a[i] != b[i] {
			return false
		}
	}
	return true
}

// ---------- CleanScopes ----------

// triple is the generator's ground truth for a well-formed scope.
type triple struct {
	typ, name string
	acts      []string
}

func (t triple) String() string { return t.typ + ":" + t.name + ":" + strings.Join(t.acts, ",") }

type scopeCase struct {
	scopes  []string
	triples []triple // the well-formed members (others are opaque strings)
	opaque  []string // members without two colons
	exact   bool     // every member is in triples or opaque (no mutation applied)
}

func replayLine(kind string, line string) map[string]string {
	return map[string]string{"op": kind, "line": line}
}

func scopesCase(sc scopeCase) {
	id := run.NewID()
	in := sc.scopes
	line := "S " + hexList(in)
	out := auth.CleanScopes(clone(in))
	run.Case(id, line, showList(out))
	run.Count(fmt.Sprintf("scopes/len=%d", min(len(in), 6)))
	if len(in) > 1 {
		run.Nontrivial(line)
	}
	rep := replayLine("S", line)
	fail := func(sig, msg string) {
		run.OracleFail(id, sig, fmt.Sprintf("%s: CleanScopes(%q) = %q", msg, in, out), rep)
	}
	// sorted, duplicate-free
	for i := 1; i < len(out); i++ {
		if out[i-1] == out[i] {
			fail("scopes-duplicate", fmt.Sprintf("duplicate %q in the result", out[i]))
			break
		}
		if out[i-1] > out[i] {
			fail("scopes-unsorted", "result not sorted")
			break
		}
	}
	// idempotent
	if again := auth.CleanScopes(clone(out)); !eqList(again, out) {
		fail("scopes-not-idempotent", fmt.Sprintf("cleaning the result again gives %q", again))
	}
	// order-insensitive
	r := run.Rand
	sh := clone(in)
	common.Shuffle(r, sh)
	if o2 := auth.CleanScopes(clone(sh)); !eqList(o2, out) {
		fail("scopes-order-dependent", fmt.Sprintf("permutation %q gives %q", sh, o2))
	}
	// duplication-insensitive
	if len(in) > 0 {
		dup := clone(in)
		for k := 0; k <= r.Intn(3); k++ {
			dup = append(dup, in[r.Intn(len(in))])
		}
		common.Shuffle(r, dup)
		if o3 := auth.CleanScopes(clone(dup)); !eqList(o3, out) {
			fail("scopes-dup-dependent", fmt.Sprintf("with repeated members %q gives %q", dup, o3))
		}
	}
	// ground truth: union of actions per (type, name), "*" absorbs
	if sc.exact {
		type key struct{ t, n string }
		acts := map[key]map[string]bool{}
		for _, t := range sc.triples {
			k := key{t.typ, t.name}
			for _, a := range t.acts {
				if a != "" {
					if acts[k] == nil {
						acts[k] = map[string]bool{}
					}
					acts[k][a] = true
				}
			}
		}
		want := map[string]bool{}
		for _, o := range sc.opaque {
			want[o] = true
		}
		for k, set := range acts {
			var l []string
			if set["*"] {
				l = []string{"*"}
			} else {
				for a := range set {
					l = append(l, a)
				}
				sort.Strings(l)
			}
			want[k.t+":"+k.n+":"+strings.Join(l, ",")] = true
		}
		var wl []string
		for w := range want {
			wl = append(wl, w)
		}
		sort.Strings(wl)
		if !eqList(wl, out) {
			sig := "scopes-union"
			for _, w := range wl {
				if strings.HasSuffix(w, ":*") {
					sig = "scopes-wildcard"
				}
			}
			if len(in) == len(wl) && len(out) > len(wl) {
				sig = "scopes-duplicate"
			}
			fail(sig, fmt.Sprintf("expected the canonical set %q", wl))
		}
	}
}

var (
	typePool = []string{"repository", "registry", "r", "repository(plugin)", ""}
	namePool = []string{"foo", "bar", "library/hello-world", "a", "catalog", "a:b", "host:5000/x", ""}
	actPool  = []string{"pull", "push", "delete", "*", "a", "b", "", "pull"}
	// strings without two colons: kept as they are
	opaquePool = []string{"foo", "unknown", "a:", "a:b", "a:c,b", ":", "", "x", ":x", "pull,push", "a:*"}
)

func genTriple(r *common.Rand) triple {
	t := triple{typ: common.Pick(r, typePool[:3+r.Intn(3)]), name: common.Pick(r, namePool[:3+r.Intn(6)])}
	n := r.Intn(4)
	if r.Chance(1, 10) {
		n = 0
	}
	for i := 0; i < n; i++ {
		t.acts = append(t.acts, common.Pick(r, actPool))
	}
	return t
}

func genScopeCase(r *common.Rand) scopeCase {
	sc := scopeCase{exact: true}
	n := r.Intn(6)
	if r.Chance(1, 4) {
		n = 1
	}
	for i := 0; i < n; i++ {
		switch {
		case r.Chance(1, 5):
			o := common.Pick(r, opaquePool)
			sc.opaque = append(sc.opaque, o)
			sc.scopes = append(sc.scopes, o)
		case len(sc.scopes) > 0 && r.Chance(1, 5):
			// exact repetition of an earlier member
			j := r.Intn(len(sc.scopes))
			s := sc.scopes[j]
			sc.scopes = append(sc.scopes, s)
			if strings.Count(s, ":") >= 2 {
				for _, t := range sc.triples {
					if t.String() == s {
						sc.triples = append(sc.triples, t)
						break
					}
				}
			} else {
				sc.opaque = append(sc.opaque, s)
			}
		default:
			t := genTriple(r)
			if len(t.acts) == 0 || strings.Contains(strings.Join(t.acts, ","), ":") {
				t.acts = append(t.acts, "pull")
			}
			sc.triples = append(sc.triples, t)
			sc.scopes = append(sc.scopes, t.String())
		}
	}
	if r.Chance(1, 6) && len(sc.scopes) > 0 {
		// byte mutation: ground truth no longer known, laws still apply
		i := r.Intn(len(sc.scopes))
		sc.scopes[i] = mutate(r, sc.scopes[i])
		sc.exact = false
	}
	// a triple whose every action is empty contributes nothing; a name with
	// colons is still well formed (the type ends at the first colon, the
	// actions start after the last one) but a type with a colon is not ours
	return sc
}

func mutate(r *common.Rand, s string) string {
	bs := []byte(s)
	special := []byte(":,* \"=\\\x00\x7f\xc3\xa9ab")
	switch r.Intn(4) {
	case 0:
		if len(bs) > 0 {
			bs[r.Intn(len(bs))] = special[r.Intn(len(special))]
		}
	case 1:
		i := r.Intn(len(bs) + 1)
		bs = append(bs[:i], append([]byte{special[r.Intn(len(special))]}, bs[i:]...)...)
	case 2:
		if len(bs) > 0 {
			i := r.Intn(len(bs))
			bs = append(bs[:i], bs[i+1:]...)
		}
	case 3:
		if len(bs) > 1 {
			i, j := r.Intn(len(bs)), r.Intn(len(bs))
			bs[i], bs[j] = bs[j], bs[i]
		}
	}
	return string(bs)
}

// ---------- cleanActions ----------

func actionsCase(in []string) {
	id := run.NewID()
	line := "A " + hexList(in)
	out := auth.VerifCleanActions(clone(in))
	run.Case(id, line, showList(out))
	run.Count(fmt.Sprintf("actions/len=%d", min(len(in), 5)))
	if len(in) > 1 {
		run.Nontrivial(line)
	}
	// ground truth: "*" absorbs, else the sorted set of non-empty members
	set := map[string]bool{}
	star := false
	for _, a := range in {
		if a == "*" {
			star = true
		}
		if a != "" {
			set[a] = true
		}
	}
	var want []string
	if star && len(in) > 1 {
		want = []string{"*"}
	} else {
		for a := range set {
			want = append(want, a)
		}
		sort.Strings(want)
	}
	if !eqList(want, out) {
		run.OracleFail(id, "actions-set", fmt.Sprintf("cleanActions(%q) = %q, expected %q", in, out, want), replayLine("A", line))
	}
}

// ---------- GetAllScopesForHost ----------

func allScopesCase(perhost, global []string) {
	id := run.NewID()
	line := "G " + hexList(perhost) + " " + hexList(global)
	ctx := context.Background()
	if len(global) > 0 {
		ctx = auth.WithScopes(ctx, clone(global)...)
	}
	if len(perhost) > 0 {
		ctx = auth.WithScopesForHost(ctx, "reg.test", clone(perhost)...)
	}
	out := auth.GetAllScopesForHost(ctx, "reg.test")
	run.Case(id, line, showList(out))
	run.Count("allscopes")
	if len(perhost) > 0 && len(global) > 0 {
		run.Nontrivial(line)
	}
	// law: the hints of another host are not visible
	if other := auth.GetScopesForHost(ctx, "other.test"); len(other) != 0 {
		run.OracleFail(id, "hints-cross-host", fmt.Sprintf("scope hints of reg.test visible for other.test: %q", other), replayLine("G", line))
	}
	// law: same canonical form as cleaning everything at once
	all := auth.CleanScopes(append(clone(perhost), global...))
	if !eqList(all, out) {
		run.OracleFail(id, "allscopes-not-canonical", fmt.Sprintf("GetAllScopesForHost(host=%q, global=%q) = %q but CleanScopes of the union = %q", perhost, global, out, all), replayLine("G", line))
	}
}

// ---------- parseChallenge ----------

type chParam struct{ k, v string }

func tokenSafe(s string) bool {
	if s == "" {
		return false
	}
	for i := 0; i < len(s); i++ {
		c := s[i]
		if !(c >= 'a' && c <= 'z' || c >= 'A' && c <= 'Z' || c >= '0' && c <= '9' || strings.IndexByte("!#$%&'*+-.^_`|~", c) >= 0) {
			return false
		}
	}
	return true
}

// quotable: quoteParam can render it and strconv.Unquote gives it back: no raw
// newline (Unquote rejects it) and valid UTF-8 (invalid bytes are replaced)
func quotable(s string) bool {
	return !strings.Contains(s, "\n") && utf8.ValidString(s)
}

// renderChallenge writes a header in one of the syntactic variants RFC 7235
// allows; every variant must parse to the same parameters.
func renderChallenge(r *common.Rand, scheme string, ps []chParam) string {
	var sb strings.Builder
	sb.WriteString(scheme)
	ws := func() string { return common.Pick(r, []string{"", "", "", " ", "\t", "  "}) }
	for i, p := range ps {
		if i == 0 {
			sb.WriteString(common.Pick(r, []string{" ", " ", "  ", " \t"}))
		} else {
			sb.WriteString(ws() + "," + ws())
		}
		sb.WriteString(p.k + ws() + "=" + ws())
		if tokenSafe(p.v) && r.Chance(1, 3) {
			sb.WriteString(p.v)
		} else {
			sb.WriteString(quoteParam(p.v))
		}
	}
	return sb.String()
}

func caseVariant(r *common.Rand, s string) string {
	bs := []byte(s)
	for i := range bs {
		if r.Chance(1, 3) && bs[i] >= 'a' && bs[i] <= 'z' {
			bs[i] -= 32
		}
	}
	return string(bs)
}

func challengeCase(hdr string, truth *struct {
	scheme auth.Scheme
	params map[string]string
}) {
	id := run.NewID()
	line := "C " + common.Hex(hdr)
	sch, ps := auth.VerifParseChallenge(hdr)
	name := map[auth.Scheme]string{auth.SchemeUnknown: "unknown", auth.SchemeBasic: "basic", auth.SchemeBearer: "bearer"}[sch]
	run.Case(id, line, fmt.Sprintf("CH %s %d %s %s %s", name, len(ps), common.Hex(ps["realm"]), common.Hex(ps["service"]), common.Hex(ps["scope"])))
	run.Count("challenge/" + name)
	if sch == auth.SchemeBearer && len(ps) > 0 {
		run.Nontrivial(line)
	}
	if truth != nil {
		ok := sch == truth.scheme
		if ok && sch == auth.SchemeBearer {
			ok = len(ps) == len(truth.params)
			for k, v := range truth.params {
				if ps[k] != v {
					ok = false
				}
			}
		}
		if ok && sch != auth.SchemeBearer && len(ps) != 0 {
			ok = false
		}
		if !ok {
			run.OracleFail(id, "challenge-params", fmt.Sprintf("parseChallenge(%q) = %v %q, the header was built from %v %q", hdr, sch, ps, truth.scheme, truth.params), replayLine("C", line))
		}
	}
}

var (
	chKeys = []string{"realm", "service", "scope", "error", "Realm", "x-y", "scope"}
	chVals = []string{"https://auth.example.io/token", "registry.example.io", "repository:foo:pull,push", "repository:a:pull repository:b:push",
		"a b", "", "x", "insufficient_scope", "a,b=c", "http://h:5000/t?x=1&y=2", "tok~en", " lead",
		"acc\u00e8s refus\u00e9", "say \"no\"", "back\\slash", "http://h/t\"x", "https://\u00fc.example/token", "a\tb", "\\\"", "caf\u00e9 \"au lait\" \\o/"}
)

func genChallenge(r *common.Rand) {
	schemeName := common.Pick(r, []string{"Bearer", "Bearer", "Bearer", "Basic", "Negotiate", "bearer", "BASIC", "Digest"})
	if r.Chance(1, 4) {
		schemeName = caseVariant(r, schemeName)
	}
	var ps []chParam
	n := r.Intn(5)
	truth := &struct {
		scheme auth.Scheme
		params map[string]string
	}{params: map[string]string{}}
	switch strings.ToLower(schemeName) {
	case "bearer":
		truth.scheme = auth.SchemeBearer
	case "basic":
		truth.scheme = auth.SchemeBasic
	}
	for i := 0; i < n; i++ {
		p := chParam{common.Pick(r, chKeys), common.Pick(r, chVals)}
		ps = append(ps, p)
		truth.params[p.k] = p.v
	}
	hdr := renderChallenge(r, schemeName, ps)
	if r.Chance(1, 4) {
		k := 1 + r.Intn(3)
		for j := 0; j < k; j++ {
			hdr = mutate(r, hdr)
		}
		truth = nil
	}
	challengeCase(hdr, truth)
}

func runPure() {
	r := run.Rand
	// fixed corner cases first
	for _, l := range [][]string{
		nil, {""}, {"foo"}, {"foo", "foo"}, {"a:b", "a:b"}, {"a:"}, {"a:", "r:n:"}, {"a:c,b"}, {"a:c,b", "x"},
		{"repository:foo:pull", "repository:foo:push"}, {"repository:foo:*", "repository:foo:pull"},
		{"repository:foo:pull,*"}, {"repository:foo:"}, {"repository:foo:,"}, {"repository:foo:,", "repository:foo:,"},
		{"registry:catalog:*"}, {"a::x"}, {"::"}, {":"}, {"a:b:c:d", "a:b:c:e"}, {"r:n:b,a,b,,a"},
		{"r:n:pull", "foo", "foo"}, {"unknown", "unknown", "unknown"},
	} {
		sc := scopeCase{scopes: l}
		scopesCase(sc)
	}
	for i := 0; i < run.Scale(40000, 1000000); i++ {
		scopesCase(genScopeCase(r))
	}
	for _, l := range [][]string{nil, {""}, {"*"}, {"", ""}, {"pull", "", "push"}, {"*", "pull"}, {"pull", "*"}, {"b", "a", "b"}, {"", "*"}} {
		actionsCase(l)
	}
	for i := 0; i < run.Scale(10000, 300000); i++ {
		n := r.Intn(6)
		var l []string
		for j := 0; j < n; j++ {
			a := common.Pick(r, actPool)
			if r.Chance(1, 10) {
				a = mutate(r, a)
			}
			l = append(l, a)
		}
		actionsCase(l)
	}
	for i := 0; i < run.Scale(8000, 200000); i++ {
		a, b := genScopeCase(r), genScopeCase(r)
		allScopesCase(a.scopes, b.scopes)
	}
	for _, h := range []string{"", "Basic", "basic realm=\"x\"", "Bearer", "Bearer ", "Bearer realm", "Bearer realm=", "Bearer realm=\"", "Bearer realm=\"a\\\"b\"",
		"Bearer realm=\"x\",service=y", "Bearer realm=\"x\" service=y", "Bearer realm=\"x\",,service=y", "Bearer\trealm=x", "Bearer realm=\"a\nb\"",
		"Bearer realm=\"x\",realm=\"y\"", "Bearer realm=\"\xc3\xa9\"", "Bea\xc5\xbfer realm=x", "Bearer realm = \"x\" , scope = \"a b\""} {
		challengeCase(h, nil)
	}
	for i := 0; i < run.Scale(25000, 600000); i++ {
		genChallenge(r)
	}
}

func replayPure(op, line string) bool {
	f := strings.Fields(line)
	if len(f) == 0 {
		return false
	}
	pos := 1
	list := func() []string {
		var n int
		fmt.Sscanf(f[pos], "%d", &n)
		pos++
		var l []string
		for i := 0; i < n; i++ {
			l = append(l, common.UnHex(f[pos]))
			pos++
		}
		return l
	}
	switch f[0] {
	case "S":
		scopesCase(scopeCase{scopes: list()})
	case "A":
		actionsCase(list())
	case "G":
		a := list()
		allScopesCase(a, list())
	case "C":
		challengeCase(common.UnHex(f[1]), nil)
	default:
		return false
	}
	return true
}
