// C16 harness: the auth client keeps each registry's secrets to that registry.
//
// pure.go     CleanScopes / cleanActions / GetAllScopesForHost / parseChallenge
// history.go  sequential histories of Client.Do against in-process registries
//             and token servers sharing a cache (model correspondence + oracle)
// conc.go     syncutil.Once traces, concurrent Set, concurrent Client.Do mixes
package main

import (
	_ "crypto/sha256"
	_ "crypto/sha512"
	"fmt"
	"os"
	"strconv"
	"strings"

	"verifharness/common"
)

var run *common.Run

func main() {
	run = common.Start("C16")
	defer run.Finish()
	run.Rule = "scope lists from (type,name,actions) triples + opaque strings + byte mutations; challenges rendered from parameter lists in RFC 7235 variants + mutations; histories of 4-16 Client.Do calls over 2-4 registries (Basic/Bearer/open/unknown scheme, shared or private token realms, distribution and OAuth2 flows, scope hints, scheme changes, three cache flavours); Once/Set/Do under free-running goroutines; distinct = distinct input line / trace; non-trivial = more than one scope, bearer challenge with parameters, a history with a re-sent request, any concurrent trace"

	if run.Replay != "" {
		for _, c := range common.ReadReplay(run.Replay) {
			seed, _ := strconv.ParseUint(c["hseed"], 10, 64)
			switch c["op"] {
			case "H":
				historyCase(seed)
			case "O":
				onceCase(seed)
			case "K":
				setCase(seed)
			case "M":
				mixCase(seed)
			default:
				replayPure(c["op"], c["line"])
			}
		}
		return
	}
	runPure()
	r := run.Rand
	for i := 0; i < run.Scale(4000, 120000); i++ {
		sd := r.U64()
		if !streamDead("history") {
			historyCase(sd)
		}
	}
	for i := 0; i < run.Scale(4000, 100000); i++ {
		sd := r.U64()
		if !streamDead("once") {
			onceCase(sd)
		}
	}
	for i := 0; i < run.Scale(2500, 60000); i++ {
		sd := r.U64()
		if !streamDead("set") {
			setCase(sd)
		}
	}
	for i := 0; i < run.Scale(1200, 40000); i++ {
		sd := r.U64()
		if !streamDead("do") {
			mixCase(sd)
		}
	}
	if len(wedged) > 0 {
		return // the oracle failures are the verdict; the floors of abandoned streams are moot
	}
	checkCoverage()
}

// checkCoverage: a stream that produced nothing is a broken check, not a pass.
func checkCoverage() {
	need := []string{
		"settrace/set-shared", "settrace/set-single", "settrace/mix-shared", "settrace/mix-single",
		"history/redirect-followed", "history/token-redirect", "history/host-alias", "history/realm-on-registry-host",
		"history/preset-authorization", "history/token-revoked", "history/challenge-outside-model-parser",
		"history/failure-injected", "history/mode-change", "mixjob/shared", "mixjob/single", "redirect-policy-case", "once-slot/free", "once-slot/closed", "challenge/bearer", "allscopes",
	}
	prefixes := []string{"history/shared/mode=2/sends=3/", "history/single/mode=2/sends=3/", "history/none/mode=2/sends=2/fetch=1/",
		"history/shared/mode=1/sends=1/fetch=0/=ok", "once/n=", "scopes/len=", "actions/len=", "mix/", "set/fetches-saved="}
	var missing []string
	for _, k := range need {
		if run.Dist[k] == 0 {
			missing = append(missing, k)
		}
	}
	for _, p := range prefixes {
		found := false
		for k, v := range run.Dist {
			if v > 0 && strings.HasPrefix(k, p) {
				found = true
			}
		}
		if !found {
			missing = append(missing, p+"*")
		}
	}
	judged := run.Dist["settrace/mix-shared"] + run.Dist["settrace/mix-single"]
	unjudged := run.Dist["settrace/mix-shared/unjudged"] + run.Dist["settrace/mix-single/unjudged"]
	if judged < 3*unjudged {
		missing = append(missing, fmt.Sprintf("judged Set traces of the mixes: %d judged vs %d unjudged", judged, unjudged))
	}
	if len(missing) > 0 {
		run.Finish()
		fmt.Fprintf(os.Stderr, "C16 harness: coverage floor not reached (no case of): %s\n", strings.Join(missing, ", "))
		os.Exit(3)
	}
}
