package main

// Histories of Client.Do calls against several in-process registries and token
// servers that share one auth cache.  Nothing leaves the process: the client's
// transport is fakeNet.  Every secret is a unique marker string naming the
// registry it belongs to, so the innermost RoundTripper can tell whose secret
// travels where.
//
// Model input line (one history):
//   H <hseed> <flavour> <oauth2> ncred {<host> <UPRA>}* nreq
//     { <host> <body> nh <hex>* ng <hex>* nans <ans>* }*
// ans: K (status != 401) | U<hex Www-Authenticate> (401) | T<serial> (token issued) | F (token endpoint refused)

import (
	"bytes"
	"context"
	"encoding/base64"
	"errors"
	"fmt"
	"io"
	"net/http"
	"net/url"
	"sort"
	"strings"
	"sync"
	"time"

	"oras.land/oras-go/v2/registry/remote/auth"
	"verifharness/common"
)

type regMode int

const (
	modeOpen regMode = iota
	modeBasic
	modeBearer
	modeWeird
)

type regState struct {
	idx        int
	host       string
	alias      string // another address of the same registry (requests may go there with Host: host)
	mode       regMode
	realm      string // advertised realm URL
	service    string
	extraScope []string // added to the challenge besides the required scope
	quoteStyle uint64
	// ground truth
	cred        auth.Credential // what the registry / its token service accept
	clientCred  auth.Credential // what the client holds for this host
	basicAsked  bool            // the registry has sent a Basic challenge in this history
	anonymousOK bool
	credErr     bool // the client's CredentialFunc fails for this registry
}

type issued struct {
	reg    int
	serial int
	scopes []string
}

type wireLog struct {
	dest string // host
	desc string // projected event
}

type world struct {
	mu       sync.Mutex
	r        *common.Rand
	regs     []*regState
	byHost   map[string]*regState
	authHost map[string]bool
	tokens   map[string]*issued
	serial   int
	tokenUp  bool

	// per Do call (sequential histories)
	cur      *regState
	events   []string // projected sends
	answers  []string
	regSends int
	fetches  int

	// oracle output
	violations []violation
	fetchCount map[string]int // per service, all time

	failAt   int  // index of the send (within the current Do) that gets no response; -1 = none
	sendIdx  int
	failed   bool
	cancelOnFail context.CancelFunc
	alwaysScope bool
	revoked     map[string]bool // issued tokens the registry no longer accepts (expiry)
	redirected  bool            // a 3xx was answered during the current Do call
	noRedirect  bool
	passthrough bool // the current request carries the caller's own Authorization header
	perJobFetch map[int]int     // token requests per job (concurrent mixes)
	jobEvents   map[int][]string
	jobAnswers  map[int][]string
	cancelAt401 map[int]context.CancelFunc // jobs whose context is cancelled the moment the registry challenges them
	ptable      []string        // parse results of headers outside Model/Challenge.v (for the model's parse_with)
	ptableSeen  map[string]bool
	redirects   [][2]string // redirect follow-ups seen: model line, observation
	noScope  bool           // a Bearer challenge without scope parameter was sent during this call
	perReq   map[string]int // registry sends per X-Verif-Req (concurrent cases)

	fetchHook func(req *http.Request) error // optional: may abort a token request (concurrency cases)
	gate func(service string) // optional barrier inside the token endpoint (concurrency cases)
}

type violation struct{ sig, msg string }

func (w *world) violate(sig, format string, a ...any) {
	w.violations = append(w.violations, violation{sig, fmt.Sprintf(format, a...)})
}

func markerHost(s string) []int {
	// every marker contains "-h<idx>-"
	var out []int
	for i := 0; i+3 < len(s); i++ {
		if s[i] == '-' && s[i+1] == 'h' {
			j := i + 2
			n := 0
			for j < len(s) && s[j] >= '0' && s[j] <= '9' {
				n = n*10 + int(s[j]-'0')
				j++
			}
			if j > i+2 && j < len(s) && s[j] == '-' {
				out = append(out, n)
			}
		}
	}
	return out
}

// secretsOf lists every secret string of registry i known to anybody, in the
// encodings in which it can travel.
func (w *world) secretForms(i int) []string {
	g := w.regs[i]
	var raw []string
	for _, c := range []auth.Credential{g.cred, g.clientCred} {
		for _, s := range []string{c.Password, c.RefreshToken, c.AccessToken} {
			if s != "" {
				raw = append(raw, s)
			}
		}
		if c.Username != "" || c.Password != "" {
			raw = append(raw, base64.StdEncoding.EncodeToString([]byte(c.Username+":"+c.Password)))
		}
	}
	for tk, is := range w.tokens {
		if is.reg == i {
			raw = append(raw, tk)
		}
	}
	var out []string
	for _, s := range raw {
		out = append(out, s, url.QueryEscape(s))
	}
	return out
}

func dumpRequest(req *http.Request, body []byte) string {
	var sb strings.Builder
	sb.WriteString(req.Method + " " + req.URL.String() + "\n")
	keys := make([]string, 0, len(req.Header))
	for k := range req.Header {
		keys = append(keys, k)
	}
	sort.Strings(keys)
	for _, k := range keys {
		for _, v := range req.Header[k] {
			sb.WriteString(k + ": " + v + "\n")
			if k == "Authorization" && strings.HasPrefix(v, "Basic ") {
				if d, err := base64.StdEncoding.DecodeString(v[6:]); err == nil {
					sb.WriteString("Authorization-decoded: " + string(d) + "\n")
				}
			}
		}
	}
	sb.WriteString("\n")
	sb.Write(body)
	return sb.String()
}

// scanForeign is the heart of the oracle: which registries' secrets are in this request?
func (w *world) scanSecrets(dump string) map[int]string {
	found := map[int]string{}
	for i := range w.regs {
		for _, s := range w.secretForms(i) {
			if s != "" && strings.Contains(dump, s) {
				found[i] = s
				break
			}
		}
	}
	return found
}

func (w *world) projectSecretBasic(userpass string) string {
	for _, g := range w.regs {
		c := g.clientCred
		if (c.Username != "" || c.Password != "") && userpass == c.Username+":"+c.Password {
			return fmt.Sprintf("%d", g.idx)
		}
	}
	return "?" + common.Hex(userpass)
}

func (w *world) projectAuthHeader(h string) string {
	switch {
	case h == "":
		return "-"
	case strings.HasPrefix(h, "Basic "):
		d, err := base64.StdEncoding.DecodeString(h[6:])
		if err != nil {
			return "b?" + common.Hex(h)
		}
		return "bB" + w.projectSecretBasic(string(d))
	case strings.HasPrefix(h, "Bearer "):
		t := h[7:]
		for _, g := range w.regs {
			if g.clientCred.AccessToken != "" && t == g.clientCred.AccessToken {
				return fmt.Sprintf("tA%d", g.idx)
			}
		}
		if is, ok := w.tokens[t]; ok {
			return fmt.Sprintf("tI%d.%d", is.reg, is.serial)
		}
		return "t?" + common.Hex(t)
	}
	return "?" + common.Hex(h)
}

func resp(req *http.Request, status int, hdr http.Header, body string) *http.Response {
	if hdr == nil {
		hdr = http.Header{}
	}
	return &http.Response{
		StatusCode: status, Status: fmt.Sprintf("%d %s", status, http.StatusText(status)),
		Proto: "HTTP/1.1", ProtoMajor: 1, ProtoMinor: 1,
		Header: hdr, Body: io.NopCloser(strings.NewReader(body)), ContentLength: int64(len(body)), Request: req,
	}
}

// requiredScope derives what the registry demands from the request path:
// /v2/<repo>/manifests/<ref> needs pull, a POST/PUT/PATCH needs push, DELETE delete.
func requiredScope(req *http.Request) (repo, action string) {
	p := strings.TrimPrefix(req.URL.Path, "/v2/")
	for _, sep := range []string{"/manifests/", "/blobs/", "/tags/", "/referrers/"} {
		if i := strings.Index(p, sep); i >= 0 {
			repo = p[:i]
			break
		}
	}
	switch req.Method {
	case http.MethodGet, http.MethodHead:
		action = "pull"
	case http.MethodDelete:
		action = "delete"
	default:
		action = "push"
	}
	return
}

func covers(scopes []string, repo, action string) bool {
	for _, s := range scopes {
		f := strings.SplitN(s, ":", 2)
		if len(f) != 2 || f[0] != "repository" {
			continue
		}
		i := strings.LastIndex(f[1], ":")
		if i < 0 || f[1][:i] != repo {
			continue
		}
		for _, a := range strings.Split(f[1][i+1:], ",") {
			if a == action || a == "*" {
				return true
			}
		}
	}
	return false
}

func (g *regState) challenge(w *world, repo, action string) string {
	switch g.mode {
	case modeBasic:
		g.basicAsked = true
		return common.Pick(w.r, []string{"Basic realm=\"registry\"", "Basic", "basic realm=\"x\"", "BASIC realm=x"})
	case modeWeird:
		return common.Pick(w.r, []string{"", "Negotiate", "Digest realm=\"x\", nonce=\"abc\"", "Bear realm=\"x\""})
	}
	// bearer: required scope, plus extras, shuffled, possibly duplicated / split per action
	var sc []string
	sc = append(sc, "repository:"+repo+":"+action)
	if w.r.Chance(1, 3) {
		sc = append(sc, "repository:"+repo+":"+action)
	}
	sc = append(sc, g.extraScope...)
	common.Shuffle(w.r, sc)
	sep := " "
	if w.r.Chance(1, 8) {
		sep = "  " // an empty element between two spaces
	}
	ps := []chParam{{"realm", g.realm}, {"service", g.service}, {"scope", strings.Join(sc, sep)}}
	if !w.alwaysScope && w.r.Chance(1, 4) {
		ps = ps[:2] // no scope parameter: only the hints decide
		w.noScope = true
	}
	if w.r.Chance(1, 3) {
		ps = append(ps, chParam{"error", "insufficient_scope"})
	}
	if w.r.Chance(1, 4) {
		// free text: escapes and non-ASCII bytes inside a quoted string
		ps = append(ps, chParam{"error_description", common.Pick(w.r, []string{"acc\u00e8s refus\u00e9", "say \"no\"", "back\\slash", "plain text", "tab\there"})})
	}
	if w.r.Chance(1, 2) {
		common.Shuffle(w.r, ps)
	}
	var sb strings.Builder
	sb.WriteString(common.Pick(w.r, []string{"Bearer", "Bearer", "bearer", "BEARER"}) + " ")
	for i, p := range ps {
		if i > 0 {
			sb.WriteString(common.Pick(w.r, []string{",", ", ", " , ", ",\t"}))
		}
		if p.k != "realm" && tokenSafe(p.v) && w.r.Chance(1, 2) {
			sb.WriteString(p.k + "=" + p.v)
		} else {
			sb.WriteString(p.k + common.Pick(w.r, []string{"=", "=", " = "}) + quoteParam(p.v))
		}
	}
	hdr := sb.String()
	w.checkChallenge(hdr, ps)
	return hdr
}

// quoteParam renders a quoted-string: backslash and double quote are escaped.
func quoteParam(v string) string {
	return "\"" + strings.NewReplacer("\\", "\\\\", "\"", "\\\"").Replace(v) + "\""
}

// checkChallenge: the real parser must return exactly the parameters the header
// was rendered from (independent ground truth); headers that Model/Challenge.v
// does not judge (backslash or non-ASCII byte) are handed to the model with
// what the real parser returned.
func (w *world) checkChallenge(hdr string, ps []chParam) {
	sch, got := auth.VerifParseChallenge(hdr)
	want := map[string]string{}
	for _, p := range ps {
		want[p.k] = p.v
	}
	ok := sch == auth.SchemeBearer && len(got) == len(want)
	for k, v := range want {
		if got[k] != v {
			ok = false
		}
	}
	if !ok {
		w.violate("challenge-params", "parseChallenge(%q) = %v %q, the registry built the header from %q", hdr, sch, got, want)
	}
	special := false
	for i := 0; i < len(hdr); i++ {
		if hdr[i] == '\\' || hdr[i] >= 0x80 {
			special = true
		}
	}
	if special && !w.ptableSeen[hdr] {
		w.ptableSeen[hdr] = true
		w.ptable = append(w.ptable, fmt.Sprintf("%s bearer %s %s %s", common.Hex(hdr), common.Hex(got["realm"]), common.Hex(got["service"]), common.Hex(got["scope"])))
		run.Count("history/challenge-outside-model-parser")
	}
}

// redirectCase: what net/http did with the Authorization header and the body of the
// redirected request, against Model/Redirect.v.  Judged only when the original
// request had the header resp. a body.
func (w *world) redirectCase(req *http.Request, body []byte) {
	orig := req.Response.Request
	if orig == nil {
		return
	}
	hadAuth := orig.Header.Get("Authorization") != ""
	hadBody := orig.Method == http.MethodPost
	if !hadAuth && !hadBody {
		return
	}
	authObs, bodyObs := "AUTH-STRIPPED", "BODY-DROPPED"
	if req.Header.Get("Authorization") != "" {
		authObs = "AUTH-KEPT"
	}
	if len(body) > 0 && req.Method == orig.Method {
		bodyObs = "BODY-KEPT"
	}
	line := fmt.Sprintf("RD %s %s %d", common.Hex(orig.URL.Host), common.Hex(req.URL.Host), req.Response.StatusCode)
	model := authObs + " " + bodyObs
	// compare only what was observable
	if !hadAuth {
		line += " noauth"
	}
	if !hadBody {
		line += " nobody"
	}
	w.redirects = append(w.redirects, [2]string{line, model})
}

func isTokenPath(p string) bool {
	return p == "/token" || p == "/auth/token" || (len(p) > 2 && p[:2] == "/t" && p[2] >= '0' && p[2] <= '9')
}

func hostname(hostport string) string {
	if i := strings.LastIndex(hostport, ":"); i >= 0 {
		return hostport[:i]
	}
	return hostport
}

// RoundTrip is the whole network.
func (w *world) RoundTrip(req *http.Request) (*http.Response, error) {
	var body []byte
	if req.Body != nil {
		body, _ = io.ReadAll(req.Body)
		req.Body.Close()
	}
	host := req.URL.Host
	dump := dumpRequest(req, body)
	if w.cancelAt401 != nil {
		// concurrent mixes: like the real transport, nothing is sent for a dead context
		if err := req.Context().Err(); err != nil {
			return nil, err
		}
	}

	if w.authHost[host] || isTokenPath(req.URL.Path) {
		return w.tokenEndpoint(req, body, dump)
	}
	w.mu.Lock()
	defer w.mu.Unlock()
	g := w.byHost[host]
	if g == nil {
		return nil, fmt.Errorf("fakeNet: no such host %q", host)
	}
	// ---- oracle: only this registry's secrets may be here
	followUp := req.Response != nil // created by net/http while following a redirect
	for i, s := range w.scanSecrets(dump) {
		if i != g.idx {
			sig := "cross-host"
			if followUp && req.Response.Request != nil {
				from := req.Response.Request.URL.Host
				if from != host && hostname(from) == hostname(host) {
					// known finding: net/http keeps Authorization when a redirect stays on
					// the same host NAME, whatever the port
					sig = "redirect-other-port-keeps-authorization"
				}
			}
			w.violate(sig, "request to registry %s carries a secret of registry %s (%q): %s", g.host, w.regs[i].host, s, oneLine(dump))
		}
	}
	if followUp {
		// the redirect target just serves the content; the hop is net/http's, not a send of Client.Do
		run.Count("history/redirect-followed")
		w.redirectCase(req, body)
		return resp(req, 200, nil, "content"), nil
	}
	ah := req.Header.Get("Authorization")
	if strings.HasPrefix(ah, "Basic ") && !g.basicAsked {
		w.violate("password-without-basic-challenge", "registry %s never sent a Basic challenge but receives %q", g.host, ah)
	}
	// the client only ever sends bearer tokens it was given for this registry
	if strings.HasPrefix(ah, "Bearer ") && !w.passthrough {
		t := ah[7:]
		_, isIssued := w.tokens[t]
		isBasicForm := false
		for _, c := range []auth.Credential{g.cred, g.clientCred} {
			if t == base64.StdEncoding.EncodeToString([]byte(c.Username+":"+c.Password)) {
				isBasicForm = true // reported as scheme-confusion below
			}
		}
		if !isIssued && !isBasicForm && t != g.clientCred.AccessToken {
			w.violate("unknown-token-sent", "registry %s receives a bearer token that no token service issued and that is not the configured access token: %q", g.host, ah)
		}
	}
	// a token cached under one scheme must not be replayed under the other
	if strings.HasPrefix(ah, "Bearer ") {
		for _, c := range []auth.Credential{g.cred, g.clientCred} {
			if (c.Username != "" || c.Password != "") && ah[7:] == base64.StdEncoding.EncodeToString([]byte(c.Username+":"+c.Password)) {
				w.violate("scheme-confusion", "the Basic token (username:password) of %s is sent as a Bearer token: %q", g.host, ah)
			}
		}
	}
	if strings.HasPrefix(ah, "Basic ") {
		if _, isTok := w.tokens[ah[6:]]; isTok || (g.clientCred.AccessToken != "" && ah[6:] == g.clientCred.AccessToken) {
			w.violate("scheme-confusion", "a bearer token of %s is sent as a Basic token: %q", g.host, ah)
		}
	}
	for _, s := range []string{g.cred.RefreshToken, g.clientCred.RefreshToken} {
		if s != "" && strings.Contains(dump, s) {
			w.violate("refresh-token-to-registry", "refresh token sent to the registry %s itself: %s", g.host, oneLine(dump))
		}
	}
	w.regSends++
	if id := req.Header.Get("X-Verif-Req"); id != "" && w.perReq != nil {
		w.perReq[id]++
	}
	ev := fmt.Sprintf("R%d:%s", g.idx, w.projectAuthHeader(ah))
	w.logEvent(req, ev)
	if w.injectFailure() {
		return nil, errInjected
	}

	repo, action := requiredScope(req)
	ok := false
	switch g.mode {
	case modeOpen:
		ok = true
	case modeBasic:
		ok = ah == "Basic "+base64.StdEncoding.EncodeToString([]byte(g.cred.Username+":"+g.cred.Password))
	case modeBearer:
		if strings.HasPrefix(ah, "Bearer ") {
			t := ah[7:]
			if g.cred.AccessToken != "" && t == g.cred.AccessToken {
				ok = true
			} else if is, found := w.tokens[t]; found && is.reg == g.idx && !w.revoked[t] {
				ok = covers(is.scopes, repo, action)
			}
		}
	}
	if ok {
		w.logAnswer(req, "K")
		if !w.noRedirect && (req.Method == http.MethodGet || req.Method == http.MethodHead) && w.r.Chance(1, 10) {
			// redirect: to another registry (other host name), to the same host name on
			// another port when such a registry exists, or to this registry's alias
			var targets []string
			for _, x := range w.regs {
				if x != g {
					targets = append(targets, x.host)
					if hostname(x.host) == hostname(g.host) {
						targets = append(targets, x.host, x.host)
					}
				}
			}
			targets = append(targets, g.alias, "blobs."+g.host) // the alias address and a sub-domain of this registry
			w.redirected = true
			return resp(req, common.Pick(w.r, []int{307, 302}), http.Header{"Location": {"http://" + common.Pick(w.r, targets) + req.URL.Path}}, ""), nil
		}
		return resp(req, common.Pick(w.r, []int{200, 200, 201, 404, 403}), nil, "ok"), nil
	}
	ch := g.challenge(w, repo, action)
	if jb, ok := req.Context().Value(jobKey{}).(int); ok {
		if c := w.cancelAt401[jb]; c != nil {
			c() // the caller gives up while the challenge is on its way: it reaches cache.Set with a dead context
		}
	}
	w.logAnswer(req, "U"+common.Hex(ch))
	h := http.Header{}
	if ch != "" {
		h.Set("Www-Authenticate", ch)
	}
	return resp(req, 401, h, "unauthorized"), nil
}

// requestDeadline bounds every request of a sequential history (they take microseconds).
const requestDeadline = 5 * time.Second

var errCredHelper = errors.New("credential helper failed")

var errInjected = errors.New("fakeNet: injected transport failure")

// injectFailure is called (under w.mu) once per send after it was logged and
// scanned: it decides whether this send gets no response.  Any send after a
// failed one in the same Do call is a violation.
func (w *world) injectFailure() bool {
	if w.failed {
		w.violate("send-after-failure", "a request was sent after an earlier send of the same Do call had failed / its context was cancelled: %v", w.events)
	}
	idx := w.sendIdx
	w.sendIdx++
	if w.failAt >= 0 && idx == w.failAt {
		w.failed = true
		w.answers = append(w.answers, "X")
		if w.cancelOnFail != nil {
			w.cancelOnFail()
		}
		return true
	}
	return false
}

// logEvent / logAnswer record a send and what came back, for the history as a whole and
// (concurrent mixes) per job.
func (w *world) logEvent(req *http.Request, ev string) {
	w.events = append(w.events, ev)
	if jb, ok := req.Context().Value(jobKey{}).(int); ok && w.jobEvents != nil {
		w.jobEvents[jb] = append(w.jobEvents[jb], ev)
	}
}

func (w *world) logAnswer(req *http.Request, a string) {
	w.answers = append(w.answers, a)
	if jb, ok := req.Context().Value(jobKey{}).(int); ok && w.jobAnswers != nil {
		w.jobAnswers[jb] = append(w.jobAnswers[jb], a)
	}
}

// projectToken names a token value the way the model does (B<i> A<i> I<i>.<serial>).
func (w *world) projectToken(scheme auth.Scheme, t string) string {
	h := "Bearer " + t
	if scheme == auth.SchemeBasic {
		h = "Basic " + t
	}
	return w.projectAuthHeader(h)[1:]
}

func oneLine(s string) string {
	s = strings.ReplaceAll(s, "\n", " | ")
	if len(s) > 400 {
		s = s[:400] + "..."
	}
	return s
}

func (w *world) tokenEndpoint(req *http.Request, body []byte, dump string) (*http.Response, error) {
	w.mu.Lock()
	var service, scopeStr string
	var scopes []string
	form := url.Values{}
	if req.Method == http.MethodPost {
		form, _ = url.ParseQuery(string(body))
		service = form.Get("service")
		scopeStr = form.Get("scope")
		if scopeStr != "" {
			scopes = strings.Split(scopeStr, " ")
		}
	} else {
		q := req.URL.Query()
		service = q.Get("service")
		scopes = q["scope"]
		scopeStr = strings.Join(scopes, " ")
	}
	realm := req.URL.Scheme + "://" + req.URL.Host + req.URL.Path
	var g *regState
	for _, x := range w.regs {
		if x.service == service {
			g = x
		}
	}
	followUp := req.Response != nil // net/http re-sent the token request after a redirect
	if followUp {
		w.redirectCase(req, body)
	}
	if !followUp {
		w.fetches++
		w.fetchCount[service]++
		if jb, ok := req.Context().Value(jobKey{}).(int); ok && w.perJobFetch != nil {
			w.perJobFetch[jb]++
		}
	}
	// ---- oracle
	found := w.scanSecrets(dump)
	for i, s := range found {
		if g == nil || i != g.idx {
			w.violate("secret-to-foreign-realm", "token request for service %q at %s carries a secret of registry %s (%q): %s", service, realm, w.regs[i].host, s, oneLine(dump))
		} else if realm != g.realm {
			sig := "secret-to-unadvertised-realm"
			if followUp {
				// known finding: net/http re-sends the body of a 307/308-redirected POST (the
				// password / refresh token of the OAuth2 flow) to the redirect target
				sig = "redirect-token-request-resent"
			}
			w.violate(sig, "secret of %s sent to %s but the registry advertises %s", g.host, realm, g.realm)
		}
	}
	for _, x := range w.regs {
		for _, s := range []string{x.cred.AccessToken, x.clientCred.AccessToken} {
			if s != "" && strings.Contains(dump, s) {
				w.violate("access-token-to-realm", "access token of %s sent to the token endpoint %s", x.host, realm)
			}
		}
	}
	for tk := range w.tokens {
		if strings.Contains(dump, tk) {
			w.violate("issued-token-to-realm", "an issued bearer token was sent to the token endpoint %s", realm)
		}
	}
	cur := w.cur
	forh := "?"
	if cur != nil {
		forh = fmt.Sprintf("%d", cur.idx)
	} else if g != nil {
		forh = fmt.Sprintf("%d", g.idx)
	}
	// ---- projection + credential check
	var ev string
	valid := false
	if req.Method == http.MethodPost {
		grant := "?"
		switch form.Get("grant_type") {
		case "refresh_token":
			rt := form.Get("refresh_token")
			grant = "?" + common.Hex(rt)
			for _, x := range w.regs {
				if x.clientCred.RefreshToken != "" && rt == x.clientCred.RefreshToken {
					grant = fmt.Sprintf("F%d", x.idx)
				}
			}
			valid = g != nil && rt == g.cred.RefreshToken && rt != ""
		case "password":
			grant = "P" + w.projectSecretBasic(form.Get("username")+":"+form.Get("password"))
			valid = g != nil && form.Get("username") == g.cred.Username && form.Get("password") == g.cred.Password && g.cred.Password != ""
		}
		if form.Get("client_id") == "" {
			valid = false
		}
		ev = fmt.Sprintf("O%s:%s:%s:%s:%s", forh, common.Hex(realm), common.Hex(service), common.Hex(scopeStr), grant)
	} else {
		basic := "-"
		if u, p, ok := req.BasicAuth(); ok {
			basic = "P" + w.projectSecretBasic(u+":"+p)
			valid = g != nil && u == g.cred.Username && p == g.cred.Password
		} else {
			valid = g != nil && g.anonymousOK
		}
		ev = fmt.Sprintf("D%s:%s:%s:%s:%s", forh, common.Hex(realm), common.Hex(service), common.Hex(scopeStr), basic)
	}
	if !followUp {
		w.logEvent(req, ev)
		if w.injectFailure() {
			w.mu.Unlock()
			return nil, errInjected
		}
		if !w.noRedirect && w.r.Chance(1, 12) {
			// the token service moved: 307 keeps method and body
			other := "auth0.test"
			if req.URL.Host == other {
				other = "auth1.test:8443"
			}
			w.redirected = true
			w.mu.Unlock()
			run.Count("history/token-redirect")
			loc := "http://" + other + "/token"
			if req.URL.RawQuery != "" {
				loc += "?" + req.URL.RawQuery
			}
			return resp(req, common.Pick(w.r, []int{307, 307, 308, 302}), http.Header{"Location": {loc}}, ""), nil
		}
	}
	if !w.tokenUp {
		valid = false
	}
	gate := w.gate
	var out *http.Response
	if !valid {
		w.logAnswer(req, "F")
		out = resp(req, common.Pick(w.r, []int{401, 403, 500}), nil, `{"errors":[{"code":"UNAUTHORIZED","message":"no"}]}`)
	} else {
		w.serial++
		tk := fmt.Sprintf("tk-h%d-%d-%x", g.idx, w.serial, w.r.U64()&0xffffff)
		w.tokens[tk] = &issued{reg: g.idx, serial: w.serial, scopes: scopes}
		w.logAnswer(req, fmt.Sprintf("T%d", w.serial))
		field := "token"
		if req.Method == http.MethodPost || w.r.Bool() {
			field = "access_token"
		}
		out = resp(req, 200, http.Header{"Content-Type": {"application/json"}}, fmt.Sprintf(`{"%s":"%s","expires_in":300}`, field, tk))
	}
	hook := w.fetchHook
	w.mu.Unlock()
	if gate != nil {
		gate(service)
	}
	if hook != nil {
		if err := hook(req); err != nil {
			return nil, err
		}
	}
	return out, nil
}

// ---------- world generation ----------

func newWorld(r *common.Rand) *world {
	w := &world{r: r, byHost: map[string]*regState{}, authHost: map[string]bool{}, tokens: map[string]*issued{},
		fetchCount: map[string]int{}, tokenUp: true, failAt: -1, ptableSeen: map[string]bool{}, revoked: map[string]bool{}}
	hosts := []string{"reg0.test", "reg1.test:5000", "reg0.test:443", "registry-3.example.io"}
	n := 2 + r.Intn(3)
	auths := []string{"auth0.test", "auth1.test:8443"}
	for _, a := range auths {
		w.authHost[a] = true
	}
	for i := 0; i < n; i++ {
		g := &regState{idx: i, host: hosts[i], service: fmt.Sprintf("svc-h%d-", i) + common.Pick(r, []string{"", "", "", "\u00e9", "\"q\"", "a\\b"})}
		tag := fmt.Sprintf("-h%d-%x", i, r.U64()&0xffffff)
		g.cred = auth.Credential{Username: "user" + tag, Password: "pw" + tag}
		switch r.Intn(6) {
		case 0:
			g.cred.RefreshToken = "rt" + tag
		case 1:
			g.cred.AccessToken = "at" + tag
		case 2:
			g.cred.RefreshToken = "rt" + tag
			g.cred.AccessToken = "at" + tag
		}
		// what the client holds
		g.clientCred = g.cred
		switch r.Intn(10) {
		case 0:
			g.clientCred = auth.EmptyCredential
			g.anonymousOK = r.Bool()
		case 1:
			g.clientCred.Password = "pw" + tag + "-stale"
			g.clientCred.RefreshToken = ""
			g.clientCred.AccessToken = ""
		case 2:
			g.clientCred.Username = ""
		case 3:
			g.clientCred = auth.Credential{RefreshToken: g.cred.RefreshToken}
			if g.cred.RefreshToken == "" {
				g.clientCred = auth.Credential{Username: g.cred.Username, Password: g.cred.Password}
			}
		case 4:
			g.clientCred.AccessToken = ""
		}
		g.alias = fmt.Sprintf("10.0.0.%d:5000", i+1)
		g.credErr = r.Chance(1, 12)
		w.regs = append(w.regs, g)
		w.byHost[g.host] = g
		w.byHost[g.alias] = g
		w.byHost["blobs."+g.host] = g
		w.randomizeMode(g)
	}
	return w
}

func (w *world) randomizeMode(g *regState) {
	r := w.r
	switch r.Intn(10) {
	case 0:
		g.mode = modeOpen
	case 1, 2, 3:
		g.mode = modeBasic
	case 4:
		g.mode = modeWeird
	default:
		g.mode = modeBearer
	}
	// realm on a token server shared with the other registries, or a private path
	ah := common.Pick(r, []string{"auth0.test", "auth1.test:8443"})
	g.realm = common.Pick(r, []string{"http://" + ah + "/token", "https://" + ah + "/auth/token", fmt.Sprintf("http://%s/t%d", ah, g.idx)})
	if len(w.regs) > 0 && r.Chance(1, 4) {
		// realm on the registry's own host, or on the host of ANOTHER registry
		g.realm = "http://" + common.Pick(r, []string{g.host, common.Pick(r, w.regs).host}) + common.Pick(r, []string{"/token", "/auth/token"})
		run.Count("history/realm-on-registry-host")
	}
	g.extraScope = nil
	for k := r.Intn(3); k > 0; k-- {
		g.extraScope = append(g.extraScope, common.Pick(r, []string{"repository:other:pull", "repository:lib/a:pull,push", "registry:catalog:*", "repository:lib/a:*", "repository:lib/a:push"}))
	}
}

// validFor tells whether the client's credential lets a Do call succeed against g in its current mode.
func (w *world) validFor(g *regState, oauth2 bool) bool {
	c := g.clientCred
	if g.credErr && g.mode != modeOpen {
		return false
	}
	switch g.mode {
	case modeOpen:
		return true
	case modeBasic:
		return c.Username == g.cred.Username && c.Password == g.cred.Password
	case modeBearer:
		if !w.tokenUp {
			return c.AccessToken != "" && c.AccessToken == g.cred.AccessToken
		}
		if c.AccessToken != "" {
			return c.AccessToken == g.cred.AccessToken
		}
		if c == auth.EmptyCredential {
			return g.anonymousOK
		}
		if c.RefreshToken == "" && !oauth2 {
			if c.Username == "" && c.Password == "" {
				return g.anonymousOK
			}
			return c.Username == g.cred.Username && c.Password == g.cred.Password
		}
		if c.RefreshToken != "" {
			return c.RefreshToken == g.cred.RefreshToken
		}
		return c.Username != "" && c.Username == g.cred.Username && c.Password == g.cred.Password
	}
	return false
}

type tokRef struct {
	token string
	reg   int
}

// sortedTokens lists the issued tokens in a deterministic order.
func sortedTokens(m map[string]*issued) []tokRef {
	var l []tokRef
	for tk, is := range m {
		l = append(l, tokRef{tk, is.reg})
	}
	sort.Slice(l, func(i, j int) bool { return l[i].token < l[j].token })
	return l
}

// credErrList renders the registries whose CredentialFunc fails (" n idx*").
func (w *world) credErrList() string {
	var l []string
	for _, g := range w.regs {
		if g.credErr {
			l = append(l, fmt.Sprintf("%d", g.idx))
		}
	}
	return strings.TrimRight(fmt.Sprintf(" %d %s", len(l), strings.Join(l, " ")), " ")
}

func credFlags(c auth.Credential) string {
	f := func(s string) string {
		if s != "" {
			return "1"
		}
		return "0"
	}
	return f(c.Username) + f(c.Password) + f(c.RefreshToken) + f(c.AccessToken)
}

type onceReader struct{ r io.Reader }

func (o onceReader) Read(p []byte) (int, error) { return o.r.Read(p) }

var hintPool = []string{"repository:lib/a:pull", "repository:lib/a:push", "repository:lib/a:pull,push", "repository:lib/b:pull", "repository:other:*",
	"registry:catalog:*", "repository:lib/a:delete", "foo", "repository:lib/a:", "repository:lib/b:pull,pull",
	"", "repository:lib/a:pull repository:lib/b:pull", "x y"}

func genHints(r *common.Rand) []string {
	if r.Chance(3, 5) {
		return nil
	}
	var l []string
	for k := 1 + r.Intn(3); k > 0; k-- {
		l = append(l, common.Pick(r, hintPool))
	}
	return l
}

func newCache(flavour string) auth.Cache {
	switch flavour {
	case "shared":
		return auth.NewCache()
	case "single":
		return auth.NewSingleContextCache()
	}
	return nil
}

func (w *world) credentialFunc() auth.CredentialFunc {
	return func(_ context.Context, hostport string) (auth.Credential, error) {
		w.mu.Lock()
		defer w.mu.Unlock()
		// credentials are configured for the registry's NAME only (not for its alias address)
		if g := w.byHost[hostport]; g != nil && g.host == hostport {
			if g.credErr {
				return auth.EmptyCredential, errCredHelper
			}
			return g.clientCred, nil
		}
		return auth.EmptyCredential, nil
	}
}

// jobKey carries the job number of a concurrent mix in the request context.
type jobKey struct{}

func classifyResult(res *http.Response, err error) string {
	switch {
	case err == nil && res.StatusCode == 401:
		return "=401"
	case err == nil:
		return "=ok"
	case errors.Is(err, auth.ErrBasicCredentialNotFound):
		return "=nocred"
	case strings.Contains(err.Error(), "missing username or password"):
		return "=missing"
	case errors.Is(err, errCredHelper):
		return "=crederr"
	case strings.Contains(err.Error(), "not rewindable"), strings.Contains(err.Error(), "failed to get request body"):
		return "=rewind"
	case errors.Is(err, errInjected) || errors.Is(err, context.Canceled):
		return "=transport"
	}
	return "=fetch"
}

func historyCase(hseed uint64) {
	r := common.NewRand(hseed)
	w := newWorld(r)
	flavour := common.Pick(r, []string{"none", "shared", "shared", "single"})
	oauth2 := r.Chance(1, 3)
	client := &auth.Client{
		Client:             &http.Client{Transport: w},
		Cache:              newCache(flavour),
		Credential:         w.credentialFunc(),
		ForceAttemptOAuth2: oauth2,
		Header:             http.Header{"User-Agent": {"verif"}},
	}
	id := run.NewID()
	rep := map[string]string{"op": "H", "hseed": fmt.Sprintf("%d", hseed)}
	var line, impl strings.Builder
	o := 0
	if oauth2 {
		o = 1
	}
	fmt.Fprintf(&line, "H %d %s %d %d", hseed, flavour, o, len(w.regs))
	for _, g := range w.regs {
		fmt.Fprintf(&line, " %d %s", g.idx, credFlags(g.clientCred))
	}
	line.WriteString(w.credErrList())
	nreq := 4 + r.Intn(run.Scale(9, 13))
	nreqModel := nreq
	head := line.String()
	line.Reset()
	nontrivial := false
	for q := 0; q < nreq; q++ {
		// scheme / realm changes mid-history
		if r.Chance(1, 8) {
			w.randomizeMode(common.Pick(r, w.regs))
			run.Count("history/mode-change")
		}
		if r.Chance(1, 25) {
			w.tokenUp = !w.tokenUp
		}
		g := common.Pick(r, w.regs)
		repo := common.Pick(r, []string{"lib/a", "lib/a", "lib/b", "other"})
		hh, gh := genHints(r), genHints(r)
		method, path, body := http.MethodGet, "/v2/"+repo+"/manifests/latest", "none"
		switch r.Intn(6) {
		case 0:
			method, path, body = http.MethodPost, "/v2/"+repo+"/blobs/uploads/", "rewind"
		case 1:
			method, path, body = http.MethodPut, "/v2/"+repo+"/manifests/v1", common.Pick(r, []string{"rewind", "once", "geterr"})
		case 2:
			method, path = http.MethodDelete, "/v2/"+repo+"/manifests/v1"
		}
		// per-request watchdog: a request of a sequential history never waits for anybody
		ctx, cancelReq := context.WithTimeout(context.Background(), requestDeadline)
		if len(gh) > 0 {
			ctx = auth.WithScopes(ctx, clone(gh)...)
		}
		if len(hh) > 0 {
			ctx = auth.WithScopesForHost(ctx, g.host, clone(hh)...)
		}
		// hints for another host must not matter
		if r.Chance(1, 4) {
			other := common.Pick(r, w.regs)
			if other != g {
				ctx = auth.WithScopesForHost(ctx, other.host, "repository:secret:*")
			}
		}
		payload := "payload-of-the-request"
		var rd io.Reader
		switch body {
		case "rewind":
			rd = bytes.NewReader([]byte(payload))
		case "once":
			rd = onceReader{strings.NewReader(payload)}
		case "geterr":
			rd = bytes.NewReader([]byte(payload))
		}
		target := g.host
		if r.Chance(1, 6) {
			target = g.alias // connect to another address of the same registry, Host header = its name
			run.Count("history/host-alias")
		}
		req, err := http.NewRequestWithContext(ctx, method, "http://"+target+path, rd)
		if err != nil {
			panic(err)
		}
		req.Host = g.host
		if body == "geterr" {
			req.GetBody = func() (io.ReadCloser, error) { return nil, errors.New("body source is gone") }
		}
		w.cur, w.events, w.answers, w.regSends, w.fetches = g, nil, nil, 0, 0
		w.violations = nil
		w.noScope = false
		w.failAt, w.sendIdx, w.failed, w.cancelOnFail = -1, 0, false, nil
		w.redirected = false
		// token expiry: the registry stops accepting one of the tokens it accepted so far
		if r.Chance(1, 5) {
			for _, is := range sortedTokens(w.tokens) {
				if is.reg == g.idx && !w.revoked[is.token] && r.Chance(1, 2) {
					w.revoked[is.token] = true
					run.Count("history/token-revoked")
				}
			}
		}
		if r.Chance(1, 8) {
			// one send of this call gets no response; half of the time because the
			// caller's context is cancelled at that moment
			w.failAt = r.Intn(4)
			if r.Bool() {
				w.cancelOnFail = cancelReq
			}
			run.Count("history/failure-injected")
		}
		valid := w.validFor(g, oauth2) && g.mode != modeWeird && body != "once" && body != "geterr" && w.failAt < 0
		// a request that already carries an Authorization header is passed through as it is
		// (not a model request: it must not touch the cache, which the following requests show)
		if r.Chance(1, 25) {
			pre := fmt.Sprintf("Bearer caller-supplied-%x", r.U64()&0xffff)
			req.Header.Set("Authorization", pre)
			w.noRedirect, w.passthrough = true, true
			w.failAt = -1
			res, err := client.Do(req)
			w.noRedirect, w.passthrough = false, false
			if res != nil {
				res.Body.Close()
			}
			run.Count("history/preset-authorization")
			if err != nil || w.regSends != 1 || w.fetches != 0 || len(w.events) != 1 || !strings.HasSuffix(w.events[0], ":t?"+common.Hex(pre[7:])) {
				run.OracleFail(id, "passthrough-modified", fmt.Sprintf("request %d of history %d carried its own Authorization header: expected exactly one send with that header, got %v (err %v)", q, hseed, w.events, err), rep)
			}
			for _, v := range w.violations {
				run.OracleFail(id, v.sig, fmt.Sprintf("request %d of history %d (preset Authorization): %s", q, hseed, v.msg), rep)
			}
			cancelReq()
			nreqModel--
			continue
		}
		modeBefore := g.mode
		res, err := client.Do(req)
		result := classifyResult(res, err)
		if res != nil {
			io.Copy(io.Discard, res.Body)
			res.Body.Close()
		}
		if err != nil && errors.Is(err, context.DeadlineExceeded) {
			// nothing in a sequential history can make Do wait: it sat on an in-flight
			// entry of the cache that nobody owns any more
			cancelReq()
			wedged["history"]++
			run.OracleFail(id, "no-progress", fmt.Sprintf("request %d of history %d (%s %s, cache %s) made no progress for %v although no other request was running (sends so far %v): it waits on an in-flight token fetch that no caller owns", q, hseed, method, req.URL, flavour, requestDeadline, w.events), rep)
			return
		}
		cancelReq()
		if w.failed && result != "=transport" {
			run.OracleFail(id, "failure-swallowed", fmt.Sprintf("request %d of history %d: a send got no response but Do ended with %s (%v)", q, hseed, result, err), rep)
		}
		fmt.Fprintf(&line, " %d %s %s %s %d", g.idx, body, hexList(hh), hexList(gh), len(w.answers))
		for _, a := range w.answers {
			line.WriteString(" " + a)
		}
		if impl.Len() > 0 {
			impl.WriteString(" | ")
		}
		impl.WriteString(strings.Join(append(append([]string{}, w.events...), result), " "))
		run.Count(fmt.Sprintf("history/%s/mode=%d/sends=%d/fetch=%d/%s", flavour, modeBefore, w.regSends, w.fetches, result))
		if w.regSends > 1 {
			nontrivial = true
		}
		// ---- oracle
		where := fmt.Sprintf("request %d of history %d (%s %s, cache %s)", q, hseed, method, req.URL, flavour)
		for _, v := range w.violations {
			run.OracleFail(id, v.sig, where+": "+v.msg, rep)
		}
		if w.regSends > 3 || w.fetches > 1 {
			run.OracleFail(id, "budget", fmt.Sprintf("%s: %d sends to the registry and %d token fetches: %v", where, w.regSends, w.fetches, w.events), rep)
		}
		if valid && !w.noScope && !w.redirected && result != "=ok" {
			run.OracleFail(id, "valid-credentials-rejected", fmt.Sprintf("%s: the client holds valid credentials but Do ended with %s (%v): %v", where, result, err, w.events), rep)
		}
	}
	for _, rdc := range w.redirects {
		run.Case(run.NewID(), rdc[0], rdc[1])
		run.Count("redirect-policy-case")
	}
	full := fmt.Sprintf("%s %d", head, len(w.ptable))
	for _, e := range w.ptable {
		full += " " + e
	}
	full += fmt.Sprintf(" %d", nreqModel) + line.String()
	run.Case(id, full, impl.String())
	if nontrivial {
		run.Nontrivial(full)
	}
	if len(run.Samples) < 2 {
		run.Sample(map[string]any{"history_seed": hseed, "cache": flavour, "wire": impl.String()})
	}
}
